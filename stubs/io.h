// stand-in for the Microsoft <io.h>: the two functions redirect.windows.c uses (defined by src/win.c)
#pragma once
#include <stdint.h>
#include <stdio.h>
int _fileno(FILE *f);
intptr_t _get_osfhandle(int fd);
