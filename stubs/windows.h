// Minimal stand-in for <windows.h>: just enough to compile and run reproc's
// process.windows.c, utf.windows.c and handle.windows.c on Linux (C18). One UTF-16 code
// unit is stored per wchar_t, so glibc's wcs* functions keep working and ASan checks
// every buffer in units. The API functions are defined by the harness (src/win.c).
#pragma once
#include <limits.h>
#include <stdbool.h>
#include <stddef.h>
#include <stdint.h>
#include <string.h>
#include <wchar.h>

typedef void *HANDLE;
typedef unsigned int DWORD;
typedef int BOOL;
typedef unsigned short WORD;
typedef unsigned int UINT;
typedef size_t SIZE_T;
typedef void *LPVOID;
typedef unsigned char *LPBYTE;
typedef wchar_t *LPWSTR;
typedef const wchar_t *LPCWSTR;
typedef const char *LPCCH;
typedef struct verif_attr_list *LPPROC_THREAD_ATTRIBUTE_LIST;

#define INVALID_HANDLE_VALUE ((HANDLE) (intptr_t) -1)
#define INFINITE 0xFFFFFFFFu
#define WAIT_FAILED 0xFFFFFFFFu
#define WAIT_OBJECT_0 0u
#define WAIT_TIMEOUT 258u
#define WAIT_ABANDONED 0x80u
#define STILL_ACTIVE 259u
#define STATUS_CONTROL_C_EXIT 0xC000013Au
#define ERROR_SUCCESS 0u
#define ERROR_FILE_NOT_FOUND 2u
#define ERROR_ACCESS_DENIED 5u
#define ERROR_NOT_SUPPORTED 50u
#define ERROR_GEN_FAILURE 31u
#define TRUE 1
#define FALSE 0

#define CREATE_NEW_PROCESS_GROUP 0x00000200u
#define CREATE_UNICODE_ENVIRONMENT 0x00000400u
#define EXTENDED_STARTUPINFO_PRESENT 0x00080000u
#define STARTF_USESHOWWINDOW 0x00000001u
#define STARTF_USESTDHANDLES 0x00000100u
#define SW_HIDE 0
#define SEM_NOGPFAULTERRORBOX 0x0002u
#define HANDLE_FLAG_INHERIT 0x00000001u
#define PROC_THREAD_ATTRIBUTE_HANDLE_LIST 0x00020002u
#define CTRL_BREAK_EVENT 1
#define STD_INPUT_HANDLE ((DWORD) -10)
#define STD_OUTPUT_HANDLE ((DWORD) -11)
#define STD_ERROR_HANDLE ((DWORD) -12)
#define GENERIC_READ 0x80000000u
#define GENERIC_WRITE 0x40000000u
#define FILE_SHARE_READ 0x00000001u
#define FILE_SHARE_WRITE 0x00000002u
#define OPEN_ALWAYS 4u
#define FILE_ATTRIBUTE_NORMAL 0x00000080u
#define CP_UTF8 65001u
#define MB_ERR_INVALID_CHARS 0x00000008u

#define ERROR_INVALID_HANDLE 6u
#define ERROR_INVALID_PARAMETER 87u
#define ERROR_BROKEN_PIPE 109u
#define ERROR_NOT_ENOUGH_MEMORY 8u
#define ERROR_INSUFFICIENT_BUFFER 122u
#define ERROR_CALL_NOT_IMPLEMENTED 120
#define ERROR_NO_UNICODE_TRANSLATION 1113u

typedef struct {
  DWORD nLength;
  LPVOID lpSecurityDescriptor;
  BOOL bInheritHandle;
} SECURITY_ATTRIBUTES, *LPSECURITY_ATTRIBUTES;

typedef struct {
  DWORD cb;
  LPWSTR lpReserved, lpDesktop, lpTitle;
  DWORD dwX, dwY, dwXSize, dwYSize, dwXCountChars, dwYCountChars, dwFillAttribute, dwFlags;
  WORD wShowWindow, cbReserved2;
  LPBYTE lpReserved2;
  HANDLE hStdInput, hStdOutput, hStdError;
} STARTUPINFOW, *LPSTARTUPINFOW;

typedef struct {
  STARTUPINFOW StartupInfo;
  LPPROC_THREAD_ATTRIBUTE_LIST lpAttributeList;
} STARTUPINFOEXW;

typedef struct {
  HANDLE hProcess, hThread;
  DWORD dwProcessId, dwThreadId;
} PROCESS_INFORMATION, *LPPROCESS_INFORMATION;

// Microsoft CRT spellings a change to the Windows sources may use
#define _wcsdup wcsdup
#define _strdup strdup
#define _stricmp strcasecmp
#define _wcsicmp wcscasecmp
#include <strings.h>

void SetLastError(DWORD e);
DWORD GetLastError(void);
BOOL SetHandleInformation(HANDLE h, DWORD mask, DWORD flags);
BOOL InitializeProcThreadAttributeList(LPPROC_THREAD_ATTRIBUTE_LIST l, DWORD n, DWORD flags, SIZE_T *size);
BOOL UpdateProcThreadAttribute(LPPROC_THREAD_ATTRIBUTE_LIST l, DWORD flags, uintptr_t attr, LPVOID value, SIZE_T size,
                               LPVOID prev, SIZE_T *ret);
void DeleteProcThreadAttributeList(LPPROC_THREAD_ATTRIBUTE_LIST l);
wchar_t *GetEnvironmentStringsW(void);
BOOL FreeEnvironmentStringsW(wchar_t *block);
UINT SetErrorMode(UINT mode);
BOOL CreateProcessW(LPCWSTR app, LPWSTR cmdline, LPSECURITY_ATTRIBUTES pa, LPSECURITY_ATTRIBUTES ta, BOOL inherit,
                    DWORD flags, LPVOID env, LPCWSTR cwd, LPSTARTUPINFOW si, LPPROCESS_INFORMATION pi);
DWORD GetProcessId(HANDLE h);
DWORD WaitForSingleObject(HANDLE h, DWORD ms);
BOOL GetExitCodeProcess(HANDLE h, DWORD *code);
BOOL GenerateConsoleCtrlEvent(DWORD ev, DWORD group);
BOOL TerminateProcess(HANDLE h, UINT code);
BOOL CloseHandle(HANDLE h);
int MultiByteToWideChar(UINT cp, DWORD flags, LPCCH src, int srclen, LPWSTR dst, int dstlen);
HANDLE GetStdHandle(DWORD id);
HANDLE CreateFileW(LPCWSTR name, DWORD access, DWORD share, LPSECURITY_ATTRIBUTES sa, DWORD disposition, DWORD flags, HANDLE tmpl);
