"""C19 driver: reproc++ against a fake C API (src/cxx.cpp)."""
import json
import os
import re
import subprocess
from concurrent.futures import ThreadPoolExecutor

import build
import core


def run(prop, tier, seed, t0, replay):
    binp = build.build_cxx("asan")
    env = dict(os.environ)
    env.update(core.SAN_ENV)
    nw = core.NWORKERS
    viols = []

    def work(w):
        rc_, out_, err_ = core.run_timed([binp, str(w), str(nw), tier, str(seed)], env, 240 if tier == "quick" else 3600)
        return rc_, out_, err_
    with ThreadPoolExecutor(nw) as ex:
        outs = list(ex.map(work, range(nw)))
    names = ["cases", "violations", "fields_compared", "method_rounds", "containers_compared", "clones_compared",
             "constants_compared", "one_hot_cases", "run_overload_calls"]
    obs = {n: 0 for n in names}
    for rc, out, err in outs:
        if rc == 124:
            obs["harness_timeouts"] = obs.get("harness_timeouts", 0) + 1
        elif rc not in (0, 1):
            kind = "crash"
            if "AddressSanitizer" in err:
                m2 = re.search(r"AddressSanitizer: (\S+)", err)
                kind = "asan-" + (m2.group(1) if m2 else "error")
            elif "runtime error" in err:
                kind = "ubsan"
            viols.append(("C19", "C19/cxx/%s" % kind, "engine died (rc=%d): %s" % (rc, err[-600:]), {"seed": seed}, [err[-3000:]]))
        for line in out.splitlines():
            f = line.split("\t")
            if f[0] == "V" and len(f) >= 4:
                viols.append(("C19", "C19/cxx/%s:%s" % (f[1], f[2]), f[3], {"seed": seed, "class": f[1], "what": f[2]}, [line[:400]]))
            elif f[0] == "S":
                for n, v in zip(names, [int(x) for x in f[1:]]):
                    obs[n] += v
    total = {"evaluations": obs["cases"], "obs": obs, "inconclusive": 0,
             "nontrivial_sigs": set(range(obs["cases"])),
             "samples": [{"one_hot_field": "deadline", "cxx": {"deadline_ms": 123456}, "expected_c": {"deadline": 123456, "everything_else": "default"}},
                         {"method": "wait", "scripted_c_result": -110, "expected": "pair(-110, error_code == std::errc::timed_out, value 110)"}]}
    rule = ("every options field set alone (one-hot, so two swapped fields cannot cancel) and all fields at random, with boundary values "
            "(INT_MAX timeouts, empty and 100-entry containers of arbitrary bytes); start() and fork() captured by a fake reproc_start "
            "that deep-copies reproc_options/argv/env; options::clone compared field by field; every wrapper method driven with scripted "
            "C results {0,1,2,137,143,255,4096,INT_MAX,-1,-2,-4,-9,-11,-12,-22,-32,-110}; every enumerator/constant compared with the "
            "C one (the real C library is linked with renamed API functions so its constants are the real ones); reproc_destroy counted "
            "per process object incl. moves. Each case draws fresh random values: distinct_nontrivial = cases")
    mo = {"cases": 4000, "fields_compared": 200000, "method_rounds": 1000, "clones_compared": 4000, "constants_compared": 26,
          "one_hot_cases": 1000, "run_overload_calls": 3000}
    return core.conclude(prop, tier, seed, "exploration", total, viols, t0, rule, min_obs=None if replay else mo,
                         assumptions=["the fake C API stands in for the C library: what reaches it is what the C layer would receive",
                                      "error_code equivalence is checked through value() and comparison with the std::errc constants"])
