"""Engine 'seq' (C14): random API call sequences over 1-3 handles (+ the NULL handle)
against scripted children on a virtual timeline; the oracle is a life-cycle state machine
that asserts only state-determined results; sanitizers/asserts watch for UB."""
from core import (Case, Violation, crash_key, rng_for, EINVAL, EPIPE, ETIMEDOUT, EAGAIN, ENOMEM, INFINITE, DEADLINE,
                  EV_DEADLINE, R_PIPE, R_DISCARD, R_STDOUT, R_PARENT, R_DEFAULT)
from model_io import World
from scengen import start_tokens, KILL_POLICY

NULLH = 3
ENOENT = -2


def gen(prop, tier, seed):
    n = 3000 if tier == "quick" else 80000
    cases = []
    for i in range(n):
        r = rng_for(seed, "seq", i)
        nh = r.randint(1, 3)
        handles = {}
        parts = []
        state = {}
        for h in range(nh):
            parts.append("N %d" % h)
            state[h] = "NS"
        nops = r.randint(1, 40)
        if i % 40 == 39:
            nops = r.randint(100, 300)   # a few long histories: handles restarted and destroyed many times over
        vt_events = 5
        for _ in range(nops):
            h = r.randrange(nh) if r.random() < 0.93 else NULLH
            k = r.randrange(100)
            if k < 14:
                # start: valid / invalid options / failing program
                sk = r.randrange(10)
                o = {"stop": KILL_POLICY, "ignpipe": 1, "nb": r.randrange(2)}
                o["in"] = r.choice([R_DEFAULT, R_PIPE, R_DISCARD])
                o["out"] = r.choice([R_DEFAULT, R_PIPE, R_DISCARD, R_PARENT])
                o["err"] = r.choice([R_DEFAULT, R_PIPE, R_STDOUT, R_DISCARD])
                if r.random() < 0.2:
                    o["dl"] = r.choice([10, 50, 500])
                if sk == 0:
                    o["in"] = R_STDOUT          # invalid: STDOUT on stdin
                    o["_invalid"] = 1
                elif sk == 1:
                    o["rparent"] = 1
                    o["rdiscard"] = 1
                    o["in"] = R_DEFAULT
                    o["_invalid"] = 1
                elif sk == 2:
                    o["prog"] = "missing"
                elif sk == 3:
                    o["input"] = r.choice([0, 10])
                    o["in"] = R_PIPE
                if h != NULLH and h not in handles and "_invalid" not in o and o.get("prog") != "missing":
                    handles[h] = {k2: v for k2, v in o.items() if not k2.startswith("_")}
                    # a scripted life for this child
                    for _e in range(r.randint(0, 4)):
                        vt_events += r.choice([5, 10, 30])
                        ek = r.randrange(6)
                        if ek < 3:
                            parts.append("E %d %d W %d %d" % (h, vt_events, r.choice([1, 2]), r.choice([1, 100, 5000, 70000])))
                        elif ek == 3:
                            parts.append("E %d %d C %d" % (h, vt_events, r.randrange(3)))
                        elif ek == 4:
                            parts.append("E %d %d R %d" % (h, vt_events, r.choice([1, 100, 65536])))
                        else:
                            parts.append("E %d %d X %d" % (h, vt_events, r.choice([0, 0, r.randrange(256), r.randrange(256)])))
                parts.append(start_tokens(h, {k2: v for k2, v in o.items() if not k2.startswith("_")}))
            elif k < 20:
                parts.append("P %d" % h)
            elif k < 32:
                parts.append("W %d %d" % (h, r.choice([0, 0, 10, 40, 200, DEADLINE])))
            elif k < 37:
                parts.append("T %d" % h)
            elif k < 41:
                parts.append("K %d" % h)
            elif k < 47:
                acts = " ".join("%d %d" % (r.choice([0, 1, 2, 3, 3, 9]), r.choice([0, 10, 50])) for _ in range(3))
                parts.append("ST %d %s" % (h, acts))
            elif k < 60:
                parts.append("RD %d %d %d" % (h, r.choice([1, 1, 2, 2, 0, 3, 7]), r.choice([0, 1, 100, 70000])))
            elif k < 70:
                parts.append("WR %d %d" % (h, r.choice([0, 1, 100, 70000, -1, -5])))
            elif k < 78:
                parts.append("CL %d %d" % (h, r.choice([0, 1, 2, 2, 1, 5])))
            elif k < 88:
                ns = r.randint(0, 3) if r.random() < 0.1 else r.randint(1, 3)
                src = []
                for _s in range(ns):
                    hh = r.choice(list(range(nh)) + [NULLH])
                    src.append("%s %d" % ("-" if hh == NULLH else hh, r.randrange(16)))
                parts.append("PL %d %d %s" % (r.choice([0, 0, 10, 30]), ns, " ".join(src)))
            elif k < 92:
                parts.append("DR %d %s %s" % (h, r.choice(["c", "d", "s0"]), r.choice(["c", "d"])))
            elif k < 96:
                parts.append("Z %d" % r.choice([5, 20, 60]))
            elif k < 99:
                parts.append("D %d" % h)
            else:
                parts.append("DN")
        for h in range(nh):
            parts.append("D %d" % h)
        cases.append(Case("seq-%d" % i, " ; ".join(parts), {"handles": handles, "nh": nh}, "seq/%d" % i))
    # the child side of a fork-mode start: the handle is "started" there, only destroy is allowed;
    # every other call is misuse that must be refused without acting
    for j in range(n // 25):
        r = rng_for(seed, "seqfork", j)
        calls = "".join(r.choice("SFWPTKROCLZ") for _ in range(r.randint(1, 10)))
        if j < 11:
            calls = "SFWPTKROCLZ"[j]
        o = {"fork": 1, "stop": KILL_POLICY, "inchild": calls, "nb": r.randrange(2)}
        if r.random() < 0.3:
            o["err"] = R_PIPE
        script = "N 0 ; %s ; E 0 25 X %d ; W 0 -1 ; D 0" % (start_tokens(0, o), r.randrange(256))
        cases.append(Case("seqfork-%d" % j, script, {"handles": {0: o}, "nh": 1, "forkchild": calls}, "seqfork/%s" % calls))
    return cases


def judge_c06(case, log):
    """Calls made on the child side of a fork-mode start must never signal or reap anything:
    the handle there refers to no child (the interposer blocks and records kill/waitpid aimed at
    anything that is not a live child of the library)."""
    vs = []
    obs = {"kill_records": 0, "waitpid_records": 0, "fork_child_calls": 0}
    fin = log.fin
    if log.crashed() or fin is None:
        return vs, obs, False   # C14 reports crashes of these cases
    obs["fork_child_calls"] = len(fin.get("inchild", []))
    for op in log.ops:
        for t in op.get("tr", []):
            if t[0] in ("kill", "waitpid"):
                obs["kill_records" if t[0] == "kill" else "waitpid_records"] += 1
                if t[7] & 4:
                    vs.append(Violation("C06", "C06/seq/badtarget:%s:%s:fork-child" % (t[0], "nonpositive" if t[3] <= 0 else "not-live-child"),
                                        "%s(%d) issued for a handle on the child side of a fork (calls %s)" % (t[0], t[3], case.meta["forkchild"])))
    if fin.get("badtarget") and not vs:
        vs.append(Violation("C06", "C06/seq/badtarget:unattributed:fork-child",
                            "a call on the child side of a fork (%s) aimed kill/waitpid at something that is not a live child of the library (%d)" % (case.meta["forkchild"], fin["badtarget"])))
    return vs, obs, obs["fork_child_calls"] > 0


def judge(prop, case, log):
    vs = []
    obs = {"ops_checked": 0, "state_op_pairs": set(), "einval_checks": 0, "epipe_checks": 0, "cached_status_checks": 0,
           "sequences": 1, "hangs": 0}

    def V(key, msg):
        vs.append(Violation("C14", "C14/seq/" + key, msg))

    if log.crashed():
        kind, lastop = crash_key(log)
        V("%s:in-or-after-%s" % (kind, lastop), "runner died (%s): %s" % (log.end, log.stderr[:500]))
        return vs, obs, True
    if log.fin is None:
        V("no-fin", "no final record")
        return vs, obs, False
    if case.meta.get("forkchild"):
        calls = case.meta["forkchild"]
        fin = log.fin
        res = fin.get("inchild", [])
        obs["fork_child_calls"] = len(res)
        if any("hang" in o for o in log.ops):
            obs["hangs"] = 1
            return vs, obs, False
        if len(res) != len(calls):
            V("fork-child-call-died", "the child side made %d of %d calls (%s) before it stopped" % (len(res), len(calls), calls))
        for c, v in zip(calls, res):
            obs["state_op_pairs"].add("CHILD/" + c)
            if c in "SF" and v != EINVAL:
                V("fork-child-start-accepted" if v >= 0 else "fork-child-start-wrong-error:%d" % v,
                  "start on the child side of a fork (an already started handle) returned %d" % v)
            elif c in "WTKZ" and v >= 0:
                V("fork-child-call-acted:" + c, "call %s on the child side of a fork returned %d (nothing to wait for or signal there)" % (c, v))
        if fin.get("badtarget"):
            V("fork-child-call-signals", "a call on the child side of a fork issued kill/waitpid (%d)" % fin["badtarget"])
        if fin.get("inchild_done") != 1:
            V("fork-child-destroy", "destroy on the child side did not return null after calls %s" % calls)
        obs["ops_checked"] = len(res)
        return vs, obs, True
    nh = case.meta["nh"]
    # handle options are only known for the first valid start per slot; reconstruct from the script instead
    script_ops = [p.strip() for p in case.script.split(";")]
    starts = {}
    for p in script_ops:
        t = p.split()
        if t and t[0] == "S":
            h = int(t[1])
            o = {}
            for kvp in t[2:]:
                if "=" in kvp:
                    a, b = kvp.split("=", 1)
                    try:
                        o[a] = int(b)
                    except ValueError:
                        o[a] = b
            starts.setdefault(h, []).append(o)
    world = World({h: case.meta["handles"].get(h, case.meta["handles"].get(str(h), {})) for h in range(nh)})
    st = {h: "NS" for h in range(nh)}   # NS / RUN / EX / GONE
    status = {}
    pid = {}
    start_idx = {h: 0 for h in range(nh)}
    pending = []
    for line in log.lines:
        if "ev" in line:
            pending.append(line)
            if line["ev"] == "hello":
                pid[line["h"]] = line["pid"]
            continue
        if "op" not in line:
            continue
        op = line
        for e in pending:
            world.event(e)
        pending = []
        name = op["op"]
        h = op.get("h", -1)
        if "hang" in op:
            obs["hangs"] += 1
            break
        ret = op["ret"]
        s = st.get(h, "NULL") if h != NULLH else "NULL"
        if name in ("Z", "N", "DN", "PL"):
            s = "-"
        obs["state_op_pairs"].add("%s/%s" % (s, name))
        obs["ops_checked"] += 1
        hs = world.h.get(h)
        isnull = h == NULLH or s == "GONE"
        if name == "DN":
            if ret != 0:
                V("destroy-null-not-null", "reproc_destroy(NULL) did not return NULL")
        elif name == "D":
            if ret != 0:
                V("destroy-not-null", "destroy returned non-NULL")
            if h in st:
                st[h] = "GONE"
        elif name == "S":
            o = None
            if h in start_idx:
                lst = starts.get(h, [])
                o = lst[start_idx[h]] if start_idx[h] < len(lst) else None
                start_idx[h] += 1
            if isnull:
                obs["einval_checks"] += 1
                if ret != EINVAL:
                    V("null-handle-not-einval:start", "start(NULL) returned %d" % ret)
            elif s != "NS":
                obs["einval_checks"] += 1
                if ret != EINVAL:
                    V("second-start-not-rejected", "start on a %s handle returned %d" % (s, ret))
            elif o is not None:
                invalid = (o.get("in") == R_STDOUT) or (o.get("rparent") and o.get("rdiscard"))
                if invalid:
                    obs["einval_checks"] += 1
                    if ret != EINVAL:
                        V("invalid-options-not-einval", "start with invalid options returned %d" % ret)
                elif o.get("prog") == "missing":
                    if ret != ENOENT:
                        V("missing-program-result", "start of a missing program returned %d" % ret)
                else:
                    if ret <= 0:
                        V("valid-start-fails", "valid start returned %d" % ret)
                    else:
                        st[h] = "RUN"
                        hs.opts.update(o)
                        hs.rtype = __import__("model_io").effective_types(hs.opts)
        elif name == "P":
            if isnull or s == "NS":
                obs["einval_checks"] += 1
                if ret != EINVAL:
                    V("needs-started-not-einval:pid", "pid on %s returned %d" % (s, ret))
            elif ret != pid.get(h):
                V("pid-wrong", "pid returned %d, child is %s" % (ret, pid.get(h)))
        elif name in ("W", "ST", "T", "K"):
            api = {"W": "wait", "ST": "stop", "T": "terminate", "K": "kill"}[name]
            if isnull or s == "NS":
                obs["einval_checks"] += 1
                if ret != EINVAL:
                    V("needs-started-not-einval:%s" % api, "%s on %s returned %d" % (api, s, ret))
            elif s == "EX":
                obs["cached_status_checks"] += 1
                if name in ("T", "K"):
                    if ret != 0:
                        V("signal-after-exit-not-0", "%s after exit returned %d" % (api, ret))
                elif name == "W" and ret != status[h]:
                    V("cached-status-differs", "wait after exit returned %d, status was %d" % (ret, status[h]))
                elif name == "ST" and ret not in (status[h], EINVAL):
                    V("cached-status-differs", "stop after exit returned %d, status was %d" % (ret, status[h]))
            else:
                if name in ("W", "ST"):
                    if ret >= 0:
                        st[h] = "EX"
                        status[h] = ret
                    elif ret not in (ETIMEDOUT, EINVAL if name == "ST" else ETIMEDOUT):
                        V("unexpected-result:%s:%d" % (api, ret), "%s on a running child returned %d" % (api, ret))
                elif ret != 0:
                    V("unexpected-result:%s:%d" % (api, ret), "%s on a running child returned %d" % (api, ret))
        elif name == "RD":
            stream = op["st"]
            if isnull:
                obs["einval_checks"] += 1
                if ret != EINVAL:
                    V("null-handle-not-einval:read", "read(NULL) returned %d" % ret)
            elif stream not in (1, 2):
                obs["einval_checks"] += 1
                if ret != EINVAL:
                    V("bad-stream-not-einval:read", "read with stream %d returned %d" % (stream, ret))
            elif s == "NS" or not hs.par_open[stream]:
                obs["epipe_checks"] += 1
                if ret != EPIPE:
                    V("closed-stream-not-epipe:read", "read on a closed/non-piped stream (%s) returned %d" % (s, ret))
            elif not (ret > 0 or ret in (EPIPE, EAGAIN) or (ret == 0 and op["size"] == 0)):
                V("unexpected-result:read:%d" % ret, "read returned %d" % ret)
        elif name == "WR":
            size = op["size"]
            if isnull:
                obs["einval_checks"] += 1
                if ret != EINVAL:
                    V("null-handle-not-einval:write", "write(NULL handle) returned %d" % ret)
            elif size == -1:
                if ret != 0:
                    V("write-null-0-not-0", "write(NULL, 0) returned %d" % ret)
            elif size < -1:
                obs["einval_checks"] += 1
                if ret != EINVAL:
                    V("write-null-n-not-einval", "write(NULL, n>0) returned %d" % ret)
            elif s == "NS" or not hs.par_open[0]:
                obs["epipe_checks"] += 1
                if ret != EPIPE:
                    V("closed-stream-not-epipe:write", "write on a closed/non-piped stdin (%s) returned %d" % (s, ret))
            elif not (ret >= 0 or ret in (EPIPE, EAGAIN)):
                V("unexpected-result:write:%d" % ret, "write returned %d" % ret)
        elif name == "CL":
            stream = op["st"]
            if isnull:
                obs["einval_checks"] += 1
                if ret != EINVAL:
                    V("null-handle-not-einval:close", "close(NULL) returned %d" % ret)
            elif stream not in (0, 1, 2):
                obs["einval_checks"] += 1
                if ret != EINVAL:
                    V("bad-stream-not-einval:close", "close with stream %d returned %d" % (stream, ret))
            elif ret != 0:
                V("close-not-idempotent", "close returned %d" % ret)
        elif name == "PL":
            src = op.get("src", [])
            if not src:
                obs["einval_checks"] += 1
                if ret != EINVAL:
                    V("poll-zero-sources-not-einval", "poll with no sources returned %d" % ret)
            else:
                anyp = False
                expired = False
                for hh, it, ev in src:
                    if hh < 0 or st.get(hh) in (None, "GONE"):
                        continue
                    w = world.h[hh]
                    if st[hh] != "NS" and w.pollable(it):
                        anyp = True
                    if st[hh] != "NS" and w.deadline_abs is not None and w.deadline_abs <= op["t0"]:
                        expired = True
                if not anyp and not expired:
                    obs["epipe_checks"] += 1
                    if ret != EPIPE:
                        V("poll-nothing-pollable-not-epipe", "poll with nothing pollable returned %d" % ret)
                elif not (ret >= 0 or ret == EPIPE):
                    V("unexpected-result:poll:%d" % ret, "poll returned %d" % ret)
        elif name == "DR":
            if isnull:
                obs["einval_checks"] += 1
                if ret != EINVAL:
                    V("null-handle-not-einval:drain", "drain(NULL) returned %d" % ret)
            elif ret not in (0, ETIMEDOUT, ENOMEM):
                V("unexpected-result:drain:%d" % ret, "drain returned %d" % ret)
        if name in ("DR",):
            op["_calls"] = None
        try:
            world.op(op)
        except KeyError:
            pass
        if name == "S" and h in st and st[h] == "RUN" and hs is not None and not hs.started and ret > 0:
            hs.on_start(op)
    return vs, obs, obs["ops_checked"] > 3


class SeqEngine:
    name = "seq"

    def cases(self, prop, tier, seed):
        cs = gen(prop, tier, seed)
        if prop == "C06":
            # only the misuse on the child side of a fork: the handle there holds no pid at all
            return [c for c in cs if c.meta.get("forkchild")]
        return cs

    def judge(self, prop, case, log):
        if prop == "C06":
            return judge_c06(case, log)
        return judge(prop, case, log)


ENGINE = SeqEngine()
