"""Engine 'io' (virtual time): C02 stream fidelity, C16 drain/run protocol, C17 blocking
behaviour. Data are position-coded; the runner verifies content byte by byte, the oracle
here checks counts, ordering, end-of-stream placement and waiting against ground truth."""
import os
import stat
from core import (Case, Violation, crash_key, rng_for, EINVAL, EPIPE, ETIMEDOUT, EAGAIN, ENOMEM,
                  INFINITE, R_PIPE, R_DISCARD, R_STDOUT, R_PARENT)
from model_io import World

NULLDEV = os.makedev(1, 3)
from scengen import start_tokens, KILL_POLICY

SIZES = [0, 1, 4095, 4096, 4097, 65535, 65536, 65537, 200000, 1000000, 5000000]
SMALL = [0, 1, 7, 100, 4095, 4096, 4097]
BUFS = [1, 7, 4096, 65536, 1000000]


# ---------------------------------------------------------------- generators
def gen_c02(tier, seed):
    n = 2200 if tier == "quick" else 45000
    cases = []
    for i in range(n):
        r = rng_for(seed, "c02", i)
        tmpl = i % 6
        o = {"in": R_PIPE, "out": R_PIPE, "err": r.choice([R_PIPE, R_PIPE, R_STDOUT, R_PARENT, R_DISCARD]),
             "nb": r.randrange(2), "ignpipe": 1, "stop": KILL_POLICY}
        parts = ["N 0"]
        ev = []
        ops = []
        late = []   # faults armed right after start
        meta = {}
        t = 5
        if tmpl == 0:
            # bulk output, several chunks over both streams, then close/exit; parent reads it all
            big = r.choice(SIZES if (tier == "thorough" or i % 60 == 0) else SIZES[:9])
            nchunks = r.randint(1, 4)
            errsmall = o["err"] != R_STDOUT
            total_out = 0
            for k in range(nchunks):
                fd = r.choice([1, 1, 2])
                sz = r.choice(SIZES[:8]) if k else big
                if fd == 2 and errsmall:
                    sz = min(sz, r.choice([0, 1, 100, 4097, 60000]))
                ev.append("E 0 %d W %d %d" % (t, fd, sz))
                total_out += sz
                t += 10
            endk = r.randrange(3)
            if endk == 0:
                ev += ["E 0 %d C 1" % t, "E 0 %d C 2" % (t + 10)]
            elif endk == 1:
                ev.append("E 0 %d X %d" % (t, r.randrange(256)))
            else:
                ev += ["E 0 %d C 2" % t, "E 0 %d C 1" % (t + 10), "E 0 %d X 0" % (t + 20)]
            buf = r.choice(BUFS[2:]) if total_out > 20000 else r.choice(BUFS)
            ops.append("Z %d" % r.choice([0, 10, 200]))
            first = r.choice([1, 2]) if o["err"] == R_PIPE else 1
            ops.append("RA 0 %d %d" % (first, buf))
            if o["err"] == R_PIPE:
                ops.append("RA 0 %d %d" % (3 - first, r.choice(BUFS[2:]) if total_out > 20000 else r.choice(BUFS)))
            ops.append("RD 0 1 10")
            ops.append("RD 0 %d 10" % r.choice([1, 2]))
        elif tmpl == 1:
            # fine-grained interleaving of child writes and parent reads of every buffer size
            for k in range(r.randint(2, 8)):
                kind = r.randrange(8)
                if kind < 5:
                    ev.append("E 0 %d W %d %d" % (t, r.choice([1, 1, 2]), r.choice(SMALL + [20000])))
                elif kind == 5:
                    ev.append("E 0 %d C %d" % (t, r.choice([1, 2])))
                t += 10
            if r.random() < 0.6:
                ev.append("E 0 %d X %d" % (t, r.randrange(256)))
            for k in range(r.randint(2, 10)):
                kind = r.randrange(10)
                if kind < 2:
                    ops.append("Z %d" % r.choice([10, 20, 50]))
                elif kind < 8:
                    st = r.choice([1, 1, 2])
                    ops.append("RD 0 %d %d" % (st, r.choice([0, 1, 7, 4096, 65536])))
                elif kind == 8:
                    ops.append("PL %d 1 0 %d" % (r.choice([0, 20]), r.choice([2, 4, 6, 14])))
                else:
                    ops.append("CL 0 %d" % r.choice([1, 2]))
            ops.append("Z 100")
            ops.append("RA 0 1 4096")
            ops.append("RA 0 2 4096")
        elif tmpl == 2:
            # stdin: parent writes (all chunk sizes), closes; child reads until EOF
            total = r.choice(SIZES[:10] if tier == "thorough" or i % 30 == 2 else SIZES[:9])
            chunk = r.choice([1, 7, 4096, 65536, 1000000]) if total <= 70000 else r.choice([4096, 65536, 1000000])
            if chunk == 1 and total > 5000:
                chunk = 4096
            ev.append("E 0 5 E 0")
            if r.random() < 0.5:
                ev.append("E 0 15 X %d" % r.randrange(256))
            ops.append("WA 0 %d %d" % (total, chunk))
            if r.random() < 0.3:
                ops.append("WR 0 0")
            ops.append("CL 0 0")
            ops.append("Z 100")
            meta["expect_eof"] = 1
        elif tmpl == 3:
            # start-up input followed by EOF
            sz = r.choice([0, 1, 100, 4096, 65535, 65536, 65537, 200000, 1000000])
            o["input"] = sz
            ev.append("E 0 5 E 0")
            ops.append("Z 50")
            ops.append("WR 0 10")  # stdin is closed after input: must be EPIPE
            meta["expect_eof"] = 1
        elif tmpl == 4:
            # both directions with small reads by the child
            total = r.choice([1, 100, 4096, 70000, 200000])
            for k in range(r.randint(1, 5)):
                ev.append("E 0 %d R %d" % (t, r.choice([1, 100, 4096, 65536])))
                t += 10
            ev.append("E 0 %d E 0" % t)
            ev.append("E 0 %d W 1 %d" % (t + 10, r.choice(SMALL)))
            ev.append("E 0 %d X 0" % (t + 20))
            ops.append("WA 0 %d %d" % (total, r.choice([7, 4096, 65536]) if total < 10000 else 65536))
            ops.append("CL 0 0")
            ops.append("RA 0 1 4096")
            meta["expect_eof"] = 1
        else:
            # nonblocking: empty stream reads, then data, then EOF; size-0 reads in between
            o["nb"] = 1
            ops.append("RD 0 1 %d" % r.choice([1, 4096]))
            ev.append("E 0 15 W 1 %d" % r.choice([1, 5000]))
            ops.append("Z 20")
            ops.append("RD 0 1 %d" % r.choice([0, 0, 1, 4096]))
            ops.append("RD 0 1 100000")
            ops.append("RD 0 1 100000")
            ev.append("E 0 35 %s" % r.choice(["C 1", "X 9"]))
            ops.append("Z 20")
            ops.append("RD 0 1 %d" % r.choice([0, 1, 4096]))
            ops.append("RD 0 1 4096")
        if tmpl in (0, 1, 2, 4) and i % 5 == 0:
            # an interrupted read()/write() (EINTR) must not lose or close anything: the call may fail,
            # the stream stays as it was. Armed after start, counted from there.
            fn = "write" if tmpl in (2, 4) and r.random() < 0.6 else "read"
            k = r.randrange(4) if fn == "read" else r.randrange(3)
            late.append("FR %s %d 4" % (fn, k))
            meta["fault"] = (fn, k)
        elif i % 5 in (1, 2) and i % 3 == 0:
            # short transfers: the kernel takes or hands over only part of what was asked for
            for _ in range(r.randint(1, 3)):
                fn = r.choice(["read", "write"])
                late.append("FR %s %d 50000" % (fn, r.randrange(6) if fn == "read" else r.randrange(5)))
            meta["short"] = 1
        parts.append(start_tokens(0, o))
        parts += late + ev + ops + ["D 0"]
        meta["handles"] = {0: o}
        meta["tmpl"] = tmpl
        cases.append(Case("c02-%d" % i, " ; ".join(parts), meta, "c02/%d/%d" % (tmpl, i)))
    return cases


def gen_c16(tier, seed):
    n = 2000 if tier == "quick" else 30000
    cases = []
    for i in range(n):
        r = rng_for(seed, "c16", i)
        o = {"in": R_PIPE, "out": R_PIPE, "err": r.choice([R_PIPE, R_PIPE, R_PIPE, R_STDOUT, R_PARENT, R_DISCARD]),
             "nb": r.randrange(2), "ignpipe": 1, "stop": KILL_POLICY}
        if i % 13 == 7:
            # stdout not a pipe (possibly nothing to drain at all)
            o["out"] = r.choice([R_DISCARD, R_PARENT])
            if o["err"] == R_STDOUT:
                o["err"] = R_DISCARD
        kind = i % 9
        ev = []
        t = 5
        vol = r.choice([0, 1, 100, 4096, 5000, 70000, 300000] + ([1000000] if i % 40 == 0 else []))
        nchunks = r.randint(1, 5)
        for k in range(nchunks):
            fd = r.choice([1, 2])
            sz = vol if k == 0 else r.choice([0, 1, 100, 5000])
            ev.append("E 0 %d W %d %d" % (t, fd, sz))
            t += 10
        endk = r.randrange(4)
        exit_code = r.randrange(256)
        if endk == 0:
            ev.append("E 0 %d X %d" % (t, exit_code))
        elif endk == 1:
            late = r.choice([60, 60, 200])   # the child outlives its streams: run's stop has to wait for it
            ev += ["E 0 %d C 1" % t, "E 0 %d C 2" % (t + 10), "E 0 %d X %d" % (t + late, exit_code)]
        elif endk == 2:
            ev += ["E 0 %d C 2" % t, "E 0 %d W 1 50" % (t + 10), "E 0 %d X %d" % (t + 20, exit_code)]
        else:
            ev += ["E 0 %d C 1" % t, "E 0 %d W 2 50" % (t + 10), "E 0 %d X %d" % (t + 20, exit_code)]
        meta = {"kind": kind, "exit_code": exit_code}
        sinks = ("c", "c")
        faults = []
        if kind == 1:
            k = r.randint(0, 6)
            which = r.randrange(2)
            ret = r.choice([1, 7, -5, -12, -110, 2147483647, -32, -32, -11, -4, -2147483648])   # also the values the library itself gives a meaning to
            sinks = ("c%d:%d" % (k, ret), "c") if which == 0 else ("c", "c%d:%d" % (k, ret))
            meta["fail"] = (which, k, ret)
        elif kind == 2:
            o["text"] = 1
            pre = r.choice([0, 0, 5, 300])
            sinks = ("s%d" % pre, "c") if r.random() < 0.7 else ("c", "s%d" % pre)
        elif kind == 3:
            o["text"] = 1
            pre = r.choice([0, 5])
            sinks = ("s%d" % pre, "c")
            k = r.randint(0, 8)
            fn = "realloc" if r.random() < 0.7 else "anyalloc"   # the k-th allocation call of any kind
            faults.append("FR %s %d 12" % (fn, k))   # armed right before the drain, counted from there
            meta["realloc_fail"] = k
            meta["alloc_fn"] = fn
        elif kind == 4:
            o["dl"] = r.choice([10, 30, 1000])
        elif kind == 5:
            sinks = (r.choice(["d", "n", "c"]), r.choice(["d", "n", "c"]))
        run = kind in (6, 7, 8) or (kind in (1, 2) and r.random() < 0.3)
        parts = ["N 0"]
        if run:
            if kind == 7:
                o["stop"] = r.choice(["0:0:0:0:0:0", "1:1000:0:0:0:0", "1:-1:0:0:0:0", KILL_POLICY,
                                      "1:10:0:0:0:0", "1:10:1:20:0:0", "1:20:2:1000:0:0"])
                if r.random() < 0.2:
                    o["prog"] = "missing"
                elif r.random() < 0.15:
                    o["fork"] = 1   # run does not do fork mode: rejected, and nothing of the attempt may stay behind
            if kind == 8:
                # reproc_run: no sinks; every stream defaults to the parent's unless a shorthand is given
                o = {"ignpipe": 1, "stop": r.choice([KILL_POLICY, "1:-1:0:0:0:0", "1:10:0:0:0:0"]), "ident": 1}
                sh = r.randrange(5)
                if sh == 1:
                    o["rdiscard"] = 1
                elif sh == 2:
                    o["rpath"] = 1
                elif sh == 3:
                    o["rfile"] = 1
                elif sh == 4:
                    o["rparent"] = 1
                sinks = ("n", "n")
                o["runex"] = "plain"
                meta["plain"] = sh
            else:
                o["runex"] = "%s,%s" % sinks
            parts += ev
            parts.append(start_tokens(0, o))
        else:
            parts.append(start_tokens(0, o))
            parts += ev
            if r.random() < 0.3:
                parts.append("Z %d" % r.choice([10, 50, 200]))
            parts += faults
            parts.append("DR 0 %s %s" % sinks)
            if faults:
                parts.append("FOFF")   # the fault is aimed at this drain only
            if r.random() < 0.5 and kind not in (1, 3):
                parts.append("DR 0 c c")  # a second drain: both streams closed already
            parts.append("D 0")
        meta["handles"] = {0: o}
        meta["sinks"] = sinks
        meta["run"] = run
        cases.append(Case("c16-%d" % i, " ; ".join(parts), meta, "c16/%d/%s/%s/%d" % (kind, o.get("err", "d"), run, i)))
    return cases


def gen_c17(tier, seed):
    n = 2000 if tier == "quick" else 25000
    cases = []
    for i in range(n):
        r = rng_for(seed, "c17", i)
        nb = [1, 1, 0][i % 3]
        o = {"in": R_PIPE, "out": R_PIPE, "err": r.choice([R_PIPE, R_STDOUT, R_PARENT]), "nb": nb,
             "ignpipe": 1, "stop": KILL_POLICY}
        ev = []
        ops = []
        meta = {}
        k = (i // 3) % 6
        if k == 0:
            # start-up input of sizes around the pipe capacity; child idle or reading
            o["input"] = r.choice([0, 1, 65535, 65536, 65537, 1000000, 4096, 70000])
            if r.random() < 0.7:
                ev.append("E 0 5 E 0")
            ops.append("Z 30")
            meta["expect_eof"] = 1 if ev else 0
            if r.random() < 0.3:
                # the kernel accepts only part of one of the start-up writes: the rest must follow
                meta["short"] = r.randrange(3)
                ev.insert(0, "F 0 write %d 50000" % meta["short"])
        elif k == 1:
            # read on: empty / partly filled / far side closed
            st = r.choice([1, 2]) if o["err"] == R_PIPE else 1
            state = r.randrange(4)
            if state == 1:
                ev.append("E 0 5 W %d %d" % (st, r.choice([1, 100, 70000])))
            elif state == 2:
                ev.append("E 0 5 C %d" % st)
                if o["err"] == R_STDOUT:
                    ev.append("E 0 5 C 2")
            elif state == 3:
                ev.append("E 0 5 W %d 10" % st)
                ev.append("E 0 5 X 0")
            ops.append("Z 10")
            # a later event that a blocking read may legitimately wait for
            if r.random() < 0.7:
                ev.append("E 0 %d %s" % (r.choice([25, 45]), r.choice(["W %d 5" % st, "X 3", "C %d" % st])))
            for _ in range(r.randint(1, 4)):
                ops.append("RD 0 %d %d" % (st, r.choice([1, 4096, 100000])))
        elif k == 2:
            # write on: empty / partly filled / full / far side closed; child idle, slow or never reading
            fill = r.choice([0, 100, 65536, 200000])
            child = r.randrange(4)
            if child == 1:
                ev.append("E 0 25 R %d" % r.choice([1, 4096, 65536]))
                ev.append("E 0 45 E 0")
            elif child == 2:
                ev.append("E 0 5 C 0")
            elif child == 3:
                ev.append("E 0 25 X 4")
            if fill:
                ops.append("WR 0 %d" % fill)
            ops.append("Z 10")
            for _ in range(r.randint(1, 3)):
                ops.append("WR 0 %d" % r.choice([1, 100, 4096, 65536]))
        elif k == 3:
            # mixed traffic
            ev.append("E 0 5 W 1 %d" % r.choice([1, 5000, 70000]))
            ev.append("E 0 15 R 100")
            ev.append("E 0 25 E 0")
            ops += ["RD 0 1 4096", "WR 0 50", "Z 10", "RD 0 1 100000", "WR 0 100000", "CL 0 0", "Z 30", "RD 0 1 10"]
        elif k == 4:
            # RA/WA loops (EAGAIN handled through poll)
            ev.append("E 0 5 W 1 %d" % r.choice([100, 70000, 300000]))
            ev.append("E 0 15 E 0")
            ev.append("E 0 25 X 1")
            ops += ["WA 0 %d 65536" % r.choice([10, 70000, 150000]), "CL 0 0", "RA 0 1 %d" % r.choice([4096, 65536])]
        else:
            # idle child, never reads or writes
            ops += ["RD 0 1 10" if nb else "WR 0 10", "WR 0 %d" % r.choice([10, 70000]), "WR 0 65536" if nb else "Z 1"]
        retry = []
        if "short" not in meta and r.random() < 0.12:
            # a start that fails first, asking for the other mode: nothing of it may stick to the handle
            stale = {kk: vv for kk, vv in o.items() if kk != "input"}
            stale.update({"prog": "missing", "nb": 1 - nb})
            retry = [start_tokens(0, stale)]
            meta["retry"] = 1
        parts = [e for e in ev if e.startswith("F ")] + ["N 0"] + retry + [start_tokens(0, o)] + [e for e in ev if not e.startswith("F ")] + ops + ["D 0"]
        meta["handles"] = {0: o}
        cases.append(Case("c17-%d" % i, " ; ".join(parts), meta, "c17/%d/%d/%d" % (nb, k, i)))
    return cases


# ---------------------------------------------------------------- oracles
def V(vs, prop, key, msg):
    vs.append(Violation(prop, "%s/io/%s" % (prop, key), msg))


def common_fail(prop, log, vs):
    if log.crashed():
        kind, lastop = crash_key(log)
        V(vs, prop, "%s:after-%s" % (kind, lastop), "runner died (%s): %s" % (log.end, log.stderr[:300]))
        return True
    if log.fin is None:
        V(vs, prop, "no-fin", "no final record")
        return True
    return False


def walk(case, log):
    """Yield (op, pre_world_at_return, world, events_since_last_op) for each API op in order.
    pre_world_at_return = state after every child event logged before the op line."""
    world = World(case.meta["handles"])
    pending = []
    calls = None
    last_t1 = 0
    for line in log.lines:
        if "ev" in line:
            if line["ev"] == "hello":
                hs = world.h.get(line["h"])
                if hs is not None and hs.opts.get("runex") and not hs.started:
                    hs.on_start({"t1": last_t1})
            pending.append(line)
            continue
        if "sinkcalls" in line:
            calls = line["sinkcalls"]
            continue
        if "op" not in line:
            continue
        op = line
        at_call = world.clone()
        for e in pending:
            if e.get("vt", 0) <= op["t0"]:
                at_call.event(e)
        for e in pending:
            world.event(e)
        if op["op"] in ("DR", "RN"):
            op["_calls"] = calls
            calls = None
        yield op, at_call, world, pending
        world.op(op)
        pending = []
        last_t1 = op.get("t1", op.get("vt", last_t1))
        if "hang" in op:
            break


def judge_c02(case, log):
    vs = []
    obs = {"reads": 0, "bytes_verified": 0, "epipes": 0, "eagains": 0, "size0_reads": 0, "writes": 0,
           "stdin_bytes_verified": 0, "eof_checks": 0, "expected_hangs": 0, "max_payload": set()}
    if common_fail("C02", log, vs):
        return vs, obs, False
    hs = None
    for op, at_call, world, pending in walk(case, log):
        hs = world.h.get(op.get("h"))
        name = op["op"]
        if hs is None:
            continue
        if name in ("RD", "RA") and op.get("st") in (1, 2) or (name in ("RD", "RA") and "hang" in op):
            if "hang" in op:
                st = op.get("to")
                got = sum(t[5] for t in op.get("tr", []) if t[0] == "read" and t[1] == 0 and t[5] > 0)
                idle = st in (1, 2) and hs.par_open[st] and hs.pipe_bytes[st] - got == 0 and hs.holders(st) > 0
                if hs.opts.get("nb") and op["hang"] != "poll":
                    V(vs, "C02", "nonblocking-read-hangs", "%s never returns in nonblocking mode" % name)
                elif not idle:
                    V(vs, "C02", "read-hangs-although-data-or-eof", "%s on stream %s never returns although data is pending or the stream is closed (bytes=%s, holders=%s)" % (name, st, hs.pipe_bytes, hs.holders(st) if st in (1, 2) else None))
                else:
                    obs["expected_hangs"] += 1
                break
            st = op["st"]
            obs["reads"] += 1
            avail = hs.pipe_bytes[st]
            open_before = hs.par_open[st]
            got = op["total"] if name == "RA" else max(op["ret"], 0)
            if op.get("bad", -1) != -1:
                V(vs, "C02", "corrupt-data:%s" % ("beyond-written" if op["bad"] == -2 else "overrun" if op["bad"] == -3 else "content"),
                  "%s stream %d: received bytes differ from what the child wrote at offset %s" % (name, st, op["bad"]))
            if got > max(avail, 0):
                V(vs, "C02", "more-than-written", "read %d bytes, only %d were pending" % (got, avail))
            obs["bytes_verified"] += got
            obs["max_payload"].add(min(got, 5000000) // 65536)
            ret = op["ret"]
            size = op.get("size", 1)
            if name == "RD" and ret > size:
                V(vs, "C02", "read-returns-more-than-size", "ret=%d size=%d" % (ret, size))
            if not open_before:
                if ret != EPIPE:
                    V(vs, "C02", "read-after-close-not-epipe", "stream %d was closed (parent close or earlier EPIPE) but read returned %d" % (st, ret))
                else:
                    obs["epipes"] += 1
                continue
            remaining = avail - got
            if name == "RD" and size == 0:
                obs["size0_reads"] += 1
                if ret == EPIPE and (remaining > 0 or hs.holders(st) > 0):
                    V(vs, "C02", "size0-read-closes-open-stream", "read with size 0 returned the closed-stream error while the stream is open (pending=%d, holders=%d)" % (remaining, hs.holders(st)))
                continue
            if ret == EPIPE:
                obs["epipes"] += 1
                if remaining > 0:
                    V(vs, "C02", "epipe-before-all-data", "closed-stream error with %d bytes still undelivered" % remaining)
                elif hs.holders(st) > 0:
                    V(vs, "C02", "epipe-while-child-holds-stream", "closed-stream error but the child still has the stream open")
            elif ret == EAGAIN:
                obs["eagains"] += 1
                if not hs.opts.get("nb"):
                    V(vs, "C02", "wouldblock-in-blocking-mode", "EWOULDBLOCK from a blocking stream")
                elif avail > 0:
                    V(vs, "C02", "wouldblock-with-data-pending", "EWOULDBLOCK although %d bytes are pending" % avail)
                elif hs.holders(st) == 0:
                    V(vs, "C02", "wouldblock-at-eof", "EWOULDBLOCK although the stream is closed and drained")
            elif ret == ETIMEDOUT and name == "RA":
                pass
            elif ret == -4 and any(t[7] & 1 for t in op.get("tr", [])):
                obs["injected_eintr"] = obs.get("injected_eintr", 0) + 1  # the interrupted call itself may fail
            elif ret <= 0:
                V(vs, "C02", "read-unexpected-result:%d" % ret, "read returned %d" % ret)
        elif name in ("WR", "WA"):
            if "hang" in op:
                if hs.opts.get("nb") and op["hang"] != "poll":
                    V(vs, "C02", "nonblocking-write-hangs", "write never returns in nonblocking mode")
                elif not (hs.child_alive and hs.child_fd_open[0]):
                    V(vs, "C02", "write-hangs-with-closed-peer", "write never returns although the child closed stdin or ended")
                else:
                    obs["expected_hangs"] += 1
                break
            obs["writes"] += 1
            ret = op["ret"]
            if name == "WR":
                size = op["size"]
                if ret > size >= 0:
                    V(vs, "C02", "write-returns-more-than-size", "ret=%d size=%d" % (ret, size))
                if ret == EPIPE and hs.par_open[0] and hs.child_alive and hs.child_fd_open[0]:
                    V(vs, "C02", "write-epipe-while-open", "EPIPE although the child still has stdin open")
                if ret == EAGAIN and (not hs.opts.get("nb") or hs.stdin_occ == 0):
                    V(vs, "C02", "write-wouldblock-unjustified", "EWOULDBLOCK with %d bytes in the pipe (nb=%s)" % (hs.stdin_occ, hs.opts.get("nb")))
                if not hs.par_open[0] and size > 0 and ret != EPIPE:
                    V(vs, "C02", "write-after-close-not-epipe", "stdin closed but write returned %d" % ret)
            if ret == -4 and any(t[7] & 1 for t in op.get("tr", [])):
                obs["injected_eintr"] = obs.get("injected_eintr", 0) + 1
    if case.meta.get("short") and log.fin:
        obs["short_transfers_fired"] = sum(1 for f in (log.fin.get("faults") or []) if f[3] == 50000 and f[4])
    return vs, obs, obs["reads"] + obs["writes"] > 0


def judge_c02_full(case, log):
    vs, obs, nt = judge_c02(case, log)
    if log.fin is None or log.crashed():
        return vs, obs, nt
    # replay once more for the final state (cheap) to check stdin delivery
    final = None
    for op, at_call, world, pending in walk(case, log):
        final = world
    if final is None:
        return vs, obs, nt
    # events after the last op (none are logged after D) - state is final
    hs = final.h.get(0)
    if hs is None or not hs.started:
        return vs, obs, nt
    if hs.stdin_bad >= 0:
        V(vs, "C02", "stdin-corrupt", "the child read a byte at offset %d that differs from what was written" % hs.stdin_bad)
    if hs.stdin_child_read > hs.stdin_accepted:
        V(vs, "C02", "stdin-more-than-written", "child read %d bytes, only %d were accepted" % (hs.stdin_child_read, hs.stdin_accepted))
    obs["stdin_bytes_verified"] += hs.stdin_child_read
    if case.meta.get("expect_eof") and not log.fin.get("hang"):
        obs["eof_checks"] += 1
        # the child ran a read-until-EOF after the parent closed stdin (or supplied input)
        ended_early = hs.end_vt is not None and not hs.stdin_child_eof and hs.stdin_child_read < hs.stdin_accepted
        if not hs.stdin_child_eof and not ended_early:
            V(vs, "C02", "no-eof-on-stdin", "stdin was closed by the parent (or start-up input given) but the child never saw end-of-file (read %d of %d)" % (hs.stdin_child_read, hs.stdin_accepted))
        elif hs.stdin_child_eof and hs.stdin_child_read != hs.stdin_accepted:
            V(vs, "C02", "stdin-bytes-lost", "child saw EOF after %d bytes, %d were accepted" % (hs.stdin_child_read, hs.stdin_accepted))
    return vs, obs, nt


def judge_c16(case, log):
    vs = []
    m = case.meta
    obs = {"drains": 0, "sink_calls": 0, "closing_calls": 0, "sink_failures": 0, "string_sinks": 0,
           "realloc_faults_fired": 0, "timeouts": 0, "runs": 0, "expected_hangs": 0, "bytes": 0}
    if common_fail("C16", log, vs):
        return vs, obs, False
    sinks = m["sinks"]
    for op, at_call, world, pending in walk(case, log):
        if op["op"] not in ("DR", "RN"):
            continue
        hs = world.h[0]
        calls = op.get("_calls") or []
        started = hs.started
        is_run = op["op"] == "RN"
        custom = [s.startswith("c") for s in sinks]
        if "hang" in op:
            openp = [p for p in (1, 2) if at_call.h[0].par_open[p] or (is_run and hs.rtype[p] == R_PIPE)]
            stuck = [p for p in openp if hs.holders(p) > 0]
            if hs.deadline_abs is not None and not is_run:
                V(vs, "C16", "drain-ignores-deadline", "drain never returns although a deadline is set")
            elif not stuck and not is_run:
                V(vs, "C16", "drain-hangs-with-streams-closed", "drain never returns although every piped stream is closed")
            else:
                obs["expected_hangs"] += 1
            break
        obs["drains"] += 1
        ret = op["ret"]
        if is_run:
            obs["runs"] += 1
            if hs.opts.get("fork"):
                obs["run_fork_rejections"] = obs.get("run_fork_rejections", 0) + 1
                if ret != EINVAL:
                    V(vs, "C16", "run-fork-mode-not-rejected", "run with the fork option returned %d, not the invalid-argument error" % ret)
                if any(t[0] == "fork" for t in op.get("tr", [])):
                    V(vs, "C16", "run-fork-mode-forks", "run with the fork option forked a process")
                continue
            if hs.opts.get("prog") == "missing":
                if ret != -2:
                    V(vs, "C16", "run-start-error-not-returned", "run of a missing program returned %d" % ret)
                continue
        # the protocol, as far as the sinks recorded it
        only_second = op["op"] == "DR" and case.script.count("DR 0") == 2 and op is not None and obs["drains"] == 2
        sinks_now = ("c", "c") if only_second else sinks
        custom = [s.startswith("c") for s in sinks_now]
        fail = m.get("fail") if not only_second else None
        exp_first = []
        if custom[0]:
            exp_first.append((0, 0, 0))
        out_fails_first = fail and fail[0] == 0 and fail[1] == 0
        if custom[1] and not out_fails_first:
            exp_first.append((1, 0, 0))
        # the recorded initial calls (tag "in", size 0) come first, one per recording sink, out before err;
        # fewer than expected only if the drain was already over (allocation failure / failing sink)
        n_init = 0
        while n_init < len(calls) and n_init < len(exp_first) and calls[n_init][1] == 0:
            n_init += 1
        got_first = [tuple(c[:3]) for c in calls[:n_init]]
        alloc_failed = ret == ENOMEM and any(t[7] & 1 for t in op.get("tr", []))
        if got_first != exp_first[:n_init] or (n_init < len(exp_first) and not alloc_failed):
            V(vs, "C16", "initial-calls-wrong", "first sink calls %s, expected %s" % ([tuple(c[:3]) for c in calls[:len(exp_first)]], exp_first))
        exp_first = exp_first[:n_init]
        seen_close = {1: 0, 2: 0}
        per_sink_idx = {0: 0, 1: 0}
        stopped = None
        for ci, c in enumerate(calls):
            sidx, tag, size, bad, vt = c
            k = per_sink_idx[sidx]
            per_sink_idx[sidx] += 1
            obs["sink_calls"] += 1
            if stopped is not None:
                V(vs, "C16", "calls-after-sink-failure", "sink called again after a sink returned %d" % stopped)
                break
            if ci >= len(exp_first):
                if tag not in (1, 2):
                    V(vs, "C16", "bad-tag", "data call tagged %d" % tag)
                    continue
                if sidx != tag - 1:
                    V(vs, "C16", "chunk-to-wrong-sink", "chunk tagged %d delivered to sink %d" % (tag, sidx))
                if bad != -1:
                    V(vs, "C16", "chunk-corrupt", "chunk for stream %d differs from what the child wrote (offset %s)" % (tag, bad))
                if seen_close[tag]:
                    V(vs, "C16", "call-after-close", "stream %d: sink called again after its closing call" % tag)
                if size == 0:
                    seen_close[tag] += 1
                    obs["closing_calls"] += 1
                obs["bytes"] += size
            if fail and fail[0] == sidx and fail[1] == k:
                stopped = fail[2]
                obs["sink_failures"] += 1
        if stopped is not None:
            if not is_run and ret != stopped:
                V(vs, "C16", "sink-result-not-returned", "sink returned %d, drain returned %d" % (stopped, ret))
            if is_run and stopped < 0 and ret != stopped:
                V(vs, "C16", "run-sink-error-not-returned", "sink returned %d, run returned %d" % (stopped, ret))
            if not is_run or stopped < 0:
                continue
            # run ignores a positive sink result and goes on to stop the child
            if ret >= 0 and hs.end_status is not None and ret != hs.end_status:
                V(vs, "C16", "run-wrong-status", "run returned %d, the child ended with %d" % (ret, hs.end_status))
            continue
        if m.get("realloc_fail") is not None and not only_second:
            fired = any(t[7] & 1 for t in op.get("tr", []))
            if fired:
                obs["realloc_faults_fired"] += 1
                if (not is_run and ret != ENOMEM) or (is_run and ret != ENOMEM):
                    V(vs, "C16", "enomem-not-returned", "realloc failed, result %d" % ret)
                # content check: everything accumulated before the failing step
                reallocs = [t for t in op.get("tr", []) if t[0] == "realloc"]
                ok = [t for t in reallocs if t[5] == 1]
                exp_len = (ok[-1][3] - 1) if ok else None
                if m.get("alloc_fn") == "anyalloc":
                    # no assumption about which function grows the string: it must be an intact
                    # prefix (original content + some of what was received), never shorter than it was
                    for s in op.get("strs", []):
                        obs["string_sinks"] += 1
                        if s[3] != -1:
                            V(vs, "C16", "string-sink-corrupt-on-enomem", "string content wrong at %s after allocation failure" % s[3])
                        if s[2] < s[1] and not (s[2] == -1 and s[1] == 0):
                            V(vs, "C16", "string-sink-length-on-enomem", "string has %d bytes after the allocation failure, it had %d before the drain" % (s[2], s[1]))
                    continue
                for s in op.get("strs", []):
                    obs["string_sinks"] += 1
                    if s[3] != -1:
                        V(vs, "C16", "string-sink-corrupt-on-enomem", "string content wrong at %s after allocation failure" % s[3])
                    if exp_len is not None and s[2] != exp_len:
                        V(vs, "C16", "string-sink-length-on-enomem", "string has %d bytes, %d had been accumulated before the failure" % (s[2], exp_len))
                    if exp_len is None and s[2] not in (-1, s[1]):
                        V(vs, "C16", "string-sink-length-on-enomem", "string has %d bytes, expected the %d-byte prefix" % (s[2], s[1]))
                continue
        at = at_call.h[0]
        deadline = hs.deadline_abs
        if ret == ETIMEDOUT and is_run and deadline is None:
            # run's stop step: the timeout error is right only if every wait of the policy is finite
            # and the child had not already ended when draining finished
            obs["run_stop_timeouts"] = obs.get("run_stop_timeouts", 0) + 1
            pol = [int(x) for x in hs.opts.get("stop", "0:0:0:0:0:0").split(":")]
            acts = [(pol[k], pol[k + 1]) for k in (0, 2, 4) if pol[k] != 0]
            drained_by = max([c[4] for c in calls] + [op["t0"]])
            if not acts or any(to == -1 for _, to in acts):
                V(vs, "C16", "run-timeout-with-unbounded-stop", "run returned ETIMEDOUT although its stop policy %s waits without limit" % pol)
            elif hs.end_vt is not None and hs.end_vt < drained_by:
                V(vs, "C16", "run-timeout-although-child-ended", "run returned ETIMEDOUT, the child had ended at %d, before draining finished (%d)" % (hs.end_vt, drained_by))
            continue
        if ret == ETIMEDOUT:
            obs["timeouts"] += 1
            if deadline is None:
                V(vs, "C16", "timeout-without-deadline", "ETIMEDOUT but no deadline was set")
            elif not is_run and op["t1"] != max(op["t0"], deadline):
                V(vs, "C16", "timeout-at-wrong-time", "ETIMEDOUT at %d, deadline %d" % (op["t1"], deadline))
            continue
        if not is_run and ret != 0:
            V(vs, "C16", "drain-unexpected-result:%d" % ret, "drain returned %d" % ret)
            continue
        if deadline is not None and not is_run and op["t1"] > deadline:
            V(vs, "C16", "deadline-expired-not-reported", "drain returned %d at %d, after the deadline %d" % (ret, op["t1"], deadline))
        # success: every piped stream closed exactly once (as far as recorded), all data delivered
        for p in (1, 2):
            was_open = at.par_open[p] if not is_run else hs.rtype[p] == R_PIPE
            if custom[p - 1]:
                if was_open and seen_close[p] != 1:
                    V(vs, "C16", "closing-call-count", "stream %d: %d closing calls (expected exactly one)" % (p, seen_close[p]))
                if not was_open and (seen_close[p] or any(c[1] == p for c in calls)):
                    V(vs, "C16", "calls-for-unpiped-stream", "stream %d is not an open pipe but its sink got data/closing calls" % p)
            if was_open:
                if hs.holders(p) > 0:
                    V(vs, "C16", "returns-with-stream-open", "returned 0 but the child still has stream %d open" % p)
                if custom[p - 1]:
                    got = sum(c[2] for c in calls if c[1] == p)
                    if got != hs.pipe_bytes[p]:
                        V(vs, "C16", "data-lost-or-duplicated", "stream %d: sinks got %d bytes, %d were pending" % (p, got, hs.pipe_bytes[p]))
        for s in op.get("strs", []):
            obs["string_sinks"] += 1
            p = s[0] + 1
            exp = s[1] + (hs.pipe_bytes[p] if (at.par_open[p] if not is_run else hs.rtype[p] == R_PIPE) else 0)
            if s[3] != -1:
                V(vs, "C16", "string-sink-corrupt", "string content wrong at %s" % s[3])
            if s[2] != exp:
                V(vs, "C16", "string-sink-length", "string has %d bytes, expected prefix %d + %d received" % (s[2], s[1], exp - s[1]))
        if is_run and m.get("plain") is not None:
            obs["plain_runs"] = obs.get("plain_runs", 0) + 1
            idents = [e for e in log.events if e.get("ev") == "ident"]
            std = {x[0]: (x[1], x[2]) for x in op.get("std", [])}
            if idents:
                fds = {f[0]: f for f in idents[0]["fds"]}
                for st in range(3):
                    f = fds.get(st)
                    ty = hs.rtype[st]
                    if m["plain"] in (2, 3) and st > 0:
                        continue   # path/FILE shorthand: C10 checks those objects
                    if f is None:
                        V(vs, "C16", "run-stream-missing", "program started by run has no descriptor %d" % st)
                    elif ty == R_PARENT and st in std and (f[1], f[2]) != std[st]:
                        V(vs, "C16", "run-default-not-parent-stream", "run without redirect options: the child's descriptor %d is (%s,%s), the parent's is %s" % (st, f[1], f[2], std[st]))
                    elif ty == R_DISCARD and not (stat.S_ISCHR(f[4]) and f[3] == NULLDEV):
                        V(vs, "C16", "run-discard-not-nulldev", "run with the discard shorthand: descriptor %d is mode %o rdev %s" % (st, f[4], f[3]))
                    elif ty == R_PIPE and not stat.S_ISFIFO(f[4]):
                        V(vs, "C16", "run-pipe-not-pipe", "descriptor %d should be a pipe, mode %o" % (st, f[4]))
                    else:
                        obs["plain_streams_checked"] = obs.get("plain_streams_checked", 0) + 1
        if is_run:
            exp_status = hs.end_status
            if ret >= 0:
                if exp_status is None:
                    V(vs, "C16", "run-status-while-running", "run returned %d but the child has not ended" % ret)
                elif ret != exp_status:
                    V(vs, "C16", "run-wrong-status", "run returned %d, the child ended with %d" % (ret, exp_status))
            elif ret != ETIMEDOUT:
                V(vs, "C16", "run-unexpected-error:%d" % ret, "run returned %d" % ret)
    return vs, obs, obs["drains"] > 0


def judge_c17(case, log):
    vs = []
    obs = {"nb_calls": 0, "blocking_calls": 0, "blocking_waits": 0, "input_starts": 0, "input_failed_starts": 0,
           "expected_hangs": 0, "nonblock_flag_seen": 0}
    if common_fail("C17", log, vs):
        return vs, obs, False
    o = case.meta["handles"][0] if 0 in case.meta["handles"] else case.meta["handles"]["0"]
    nb = o.get("nb")
    final = None
    skip_retry = bool(case.meta.get("retry"))
    for op, at_call, world, pending in walk(case, log):
        final = world
        name = op["op"]
        hs = world.h[0]
        ios = [t for t in op.get("tr", []) if t[0] in ("read", "write") and t[1] == 0]
        waited = any(t[7] & 2 for t in ios)
        if name == "S" and skip_retry:
            # the deliberately failing first start of a retry case (missing program, the other mode)
            skip_retry = False
            obs["retry_cases"] = obs.get("retry_cases", 0) + 1
            if op.get("ret", 0) >= 0 and "hang" not in op:
                V(vs, "C17", "missing-program-started", "a start with a missing program returned %s" % op.get("ret"))
            continue
        if name == "S":
            if "hang" in op:
                V(vs, "C17", "start-blocks", "start never returns (start-up input of %s bytes)" % o.get("input"))
                break
            if o.get("input") is not None:
                writes = [t for t in ios if t[0] == "write"]
                if any(t[7] & 2 for t in writes) or op["t1"] != op["t0"]:
                    V(vs, "C17", "start-input-blocks", "start had to wait while writing the start-up input")
                if op["ret"] > 0:
                    obs["input_starts"] += 1
                else:
                    obs["input_failed_starts"] += 1
                    if op["ret"] not in (EAGAIN,):
                        V(vs, "C17", "start-input-unexpected-error:%d" % op["ret"], "start with input %s failed with %d" % (o.get("input"), op["ret"]))
            continue
        if name not in ("RD", "WR", "RA", "WA"):
            continue
        harness_poll_hang = "hang" in op and op["hang"] == "poll" and name in ("RA", "WA")
        if nb and not harness_poll_hang:
            obs["nb_calls"] += 1
            if "hang" in op:
                V(vs, "C17", "nonblocking-call-blocks-forever", "%s never returns in nonblocking mode" % name)
                break
            if name in ("RD", "WR"):
                if waited or op["t1"] != op["t0"]:
                    V(vs, "C17", "nonblocking-call-waited", "%s waited for the child in nonblocking mode" % name)
                for t in ios:
                    if t[7] & 32:
                        obs["nonblock_flag_seen"] += 1
                    else:
                        # how the library avoids blocking is its own business (O_NONBLOCK is one way):
                        # recorded, not judged - waiting is judged above, where it would be observable
                        obs["nonblock_flag_missing"] = obs.get("nonblock_flag_missing", 0) + 1
                ret = op["ret"]
                if not (ret > 0 or ret in (EPIPE, EAGAIN) or (ret == 0 and op.get("size", 1) == 0)):
                    V(vs, "C17", "nonblocking-unexpected-result:%d" % ret, "%s returned %d" % (name, ret))
        else:
            if "hang" in op:
                # legitimate only if the child really never acts again
                st = None
                if name in ("RD", "RA"):
                    got = sum(t[5] for t in op.get("tr", []) if t[0] == "read" and t[1] == 0 and t[5] > 0)
                    p = op.get("to")
                    if p in (1, 2) and hs.par_open[p] and hs.pipe_bytes[p] - got == 0 and hs.holders(p) > 0:
                        st = p
                    if st is None:
                        V(vs, "C17", "blocking-read-hangs-with-data-or-eof", "blocking read never returns although data/EOF is there")
                    else:
                        obs["expected_hangs"] += 1
                else:
                    if hs.child_alive and hs.child_fd_open[0]:
                        obs["expected_hangs"] += 1
                    else:
                        V(vs, "C17", "blocking-write-hangs-with-closed-peer", "blocking write never returns although the child closed stdin")
                break
            obs["blocking_calls"] += 1
            if name in ("RD", "WR"):
                for t in ios:
                    if t[7] & 32:
                        # an implementation detail (a blocking call may be built from a nonblocking
                        # descriptor and poll): recorded; what is judged is EWOULDBLOCK reaching the caller
                        obs["nonblock_flag_without_option"] = obs.get("nonblock_flag_without_option", 0) + 1
                if op["ret"] == EAGAIN:
                    V(vs, "C17", "wouldblock-in-blocking-mode", "%s returned EWOULDBLOCK without the nonblocking option" % name)
            if name == "RD" and op.get("st") in (1, 2):
                st = op["st"]
                a = at_call.h[0]
                if op["t1"] > op["t0"]:
                    obs["blocking_waits"] += 1
                    ready_at_call = (not a.par_open[st]) or a.pipe_bytes[st] > 0 or a.holders(st) == 0
                    if ready_at_call:
                        V(vs, "C17", "blocking-read-waits-with-data-ready", "read waited %d ms although data/EOF was available at call time" % (op["t1"] - op["t0"]))
                    # it must return at the first child event that touches this stream
                    first = None
                    for e in pending:
                        if e.get("vt", 0) <= op["t0"]:
                            continue
                        if (e["ev"] == "cw" and a.dest_pipe(e["fd"]) == st and e["n"] > 0) or e["ev"] == "end":
                            first = e["vt"]
                            break
                    if first is not None and op["t1"] > first:
                        V(vs, "C17", "blocking-read-returns-late", "read returned at %d, data/EOF arrived at %d" % (op["t1"], first))
                if op["ret"] == 0 and op.get("size", 1) > 0:
                    V(vs, "C17", "blocking-read-returns-zero", "blocking read returned 0 bytes")
            if name == "WR" and op["t1"] > op["t0"]:
                obs["blocking_waits"] += 1
                # it may only have waited for the child: some child read/close/exit happened at t1
                if not any(e.get("vt") == op["t1"] and e["ev"] in ("cr", "cc", "end") for e in pending):
                    V(vs, "C17", "blocking-write-waits-for-nothing", "write returned at %d without the child making room then" % op["t1"])
    if final is not None and case.meta.get("expect_eof") and o.get("input") is not None and not log.fin.get("hang"):
        hs = final.h[0]
        if hs.started:
            if not hs.stdin_child_eof or hs.stdin_child_read != o["input"] or hs.stdin_bad >= 0:
                V(vs, "C17", "start-input-not-delivered-completely", "start succeeded with input %d; child read %d bytes, eof=%s, bad=%d"
                  % (o["input"], hs.stdin_child_read, hs.stdin_child_eof, hs.stdin_bad))
    return vs, obs, obs["nb_calls"] + obs["blocking_calls"] + obs["input_starts"] > 0


class IoEngine:
    name = "io"

    def cases(self, prop, tier, seed):
        return {"C02": gen_c02, "C16": gen_c16, "C17": gen_c17}[prop](tier, seed)

    def judge(self, prop, case, log):
        return {"C02": judge_c02_full, "C16": judge_c16, "C17": judge_c17}[prop](case, log)


ENGINE = IoEngine()
