"""Property -> check wiring."""
import json

import build
import core
import eng_opts
import eng_win
import eng_cxx
import eng_mt


def scen_check(module, level, rule, min_obs_quick=None, min_obs_thorough=None, config="asan",
               assumptions=None, exhaustive_thorough=False, exhaustive_quick=False, extra=None):
    """module: engine module name, or a list of (module, config) pairs whose results are merged."""
    mods = module if isinstance(module, list) else [(module, config)]
    mods = [m if len(m) == 3 else (m[0], m[1], {}) for m in mods]

    def run(prop, tier, seed, t0, replay):
        import os
        vchild = build.build_vchild()
        os.environ["VERIF_VCHILD"] = vchild
        total = None
        viols = []
        replay_doc = json.load(open(replay)) if replay else None
        for mod, cfg, mopts in mods:
            if mopts.get("tiers") and tier not in mopts["tiers"]:
                continue
            scen = build.build_scen(cfg)
            os.environ["VERIF_SCEN_ND"] = scen
            replay_cases = None
            if replay_doc is not None:
                replay_cases = [c for c in replay_doc["cases"]]
                rmod = replay_doc.get("module") or (replay_cases[0].get("module") if replay_cases else None)
                if rmod and rmod != mod:
                    continue
            t, v = core.run_engine(mod, prop, tier, seed, scen, vchild, replay_cases, opts=mopts)
            if mopts.get("prefix"):
                t["obs"] = {("memcheck_" + k): val for k, val in t["obs"].items() if not isinstance(val, set)}
            for x in v:
                x[3]["module"] = mod
            viols.extend(v)
            if total is None:
                total = t
            else:
                total["evaluations"] += t["evaluations"]
                total["inconclusive"] += t["inconclusive"]
                total["nontrivial_sigs"].update(t["nontrivial_sigs"])
                total["samples"].extend(t["samples"])
                for k, val in t["obs"].items():
                    if isinstance(val, set):
                        total["obs"].setdefault(k, set()).update(val)
                    else:
                        total["obs"][k] = total["obs"].get(k, 0) + val
        if total is None:
            # replay of a violation raised by the extra pass (real-time / stress harness): there is no
            # case script to re-run, the pass is repeated as a whole with the recorded seed
            total = {"evaluations": 0, "nontrivial_sigs": set(), "obs": {}, "inconclusive": 0, "samples": []}
            if replay_doc is not None and replay_doc.get("cases"):
                seed = replay_doc["cases"][0].get("seed", seed)
        extras = extra if isinstance(extra, (list, tuple)) else ([extra] if extra is not None else [])
        run_extras = bool(extras) and (not replay or total["evaluations"] == 0)
        for xi, xf in enumerate(extras if run_extras else []):
            try:
                ev, eo, en = xf(prop, tier, seed)
            except build.Inconclusive as e:
                # an add-on pass that cannot be built must not hide what the main engines found
                print("note: add-on pass of %s not built: %s" % (prop, str(e).splitlines()[-1][:200]))
                ev, eo, en = [], {"addon_pass_unavailable": 1}, 0
            viols.extend(ev)
            total["evaluations"] += en
            total["nontrivial_sigs"].update("x%d.%d" % (xi, i) for i in range(en))
            for k, val in eo.items():
                if isinstance(val, set):
                    total["obs"].setdefault(k, set()).update(val)
                else:
                    total["obs"][k] = total["obs"].get(k, 0) + val
        mo = None if replay else (min_obs_quick if tier == "quick" else (min_obs_thorough or min_obs_quick))
        return core.conclude(prop, tier, seed, level, total, viols, t0, rule, min_obs=mo,
                             assumptions=assumptions,
                             exhaustive=(exhaustive_thorough and tier == "thorough") or exhaustive_quick)
    return {"run": run, "level": level, "module": module, "min_obs_quick": min_obs_quick or {}}


def cxxio_pass(prop, tier, seed):
    """C16, C++ half: reproc::drain / reproc::run templates against the real library (src/cxxio.cpp)."""
    import os
    import shutil
    import subprocess
    from concurrent.futures import ThreadPoolExecutor
    vchild = build.build_vchild()
    binp = build.build_cxxio("asan")
    env = dict(os.environ)
    env.update(core.SAN_ENV)
    nw = core.NWORKERS
    root = os.path.join(core.BUILD, "run", "cxxio.%d" % os.getpid())
    os.makedirs(root, exist_ok=True)

    def work(w):
        rc_, out_, err_ = core.run_timed([binp, vchild, os.path.join(root, "w%d" % w), str(w), str(nw), tier, str(seed)], env, 900 if tier == "quick" else 3600)
        return rc_, out_, err_
    with ThreadPoolExecutor(nw) as ex:
        outs = list(ex.map(work, range(nw)))
    shutil.rmtree(root, ignore_errors=True)
    names = ["cxx_cases", "cxx_violations", "cxx_sink_calls", "cxx_bytes", "cxx_runs", "cxx_stops", "cxx_string_sinks", "cxx_timeouts", "cxx_looks_under_mutex", "cxx_runs_that_must_stop_the_child"]
    obs = {n: 0 for n in names}
    viols = []
    for rc, out, err in outs:
        if rc in (124, 3):
            obs["harness_timeouts"] = obs.get("harness_timeouts", 0) + 1
        elif rc not in (0, 1):
            kind = "asan" if "AddressSanitizer" in err else "ubsan" if "runtime error" in err else "crash"
            viols.append((prop, "%s/cxxio/%s" % (prop, kind), "C++ drain harness died rc=%d: %s" % (rc, err[-500:]), {"seed": seed, "module": "cxxio"}, [err[-2000:]]))
        for line in out.splitlines():
            f = line.split("\t")
            if f[0] == "V" and len(f) >= 4:
                viols.append((prop, "%s/cxxio/%s" % (prop, f[1]), "%s [%s]" % (f[3], f[2]), {"seed": seed, "module": "cxxio", "case": f[2]}, [line[:400]]))
            elif f[0] == "S":
                for n, v in zip(names, [int(x) for x in f[1:]]):
                    obs[n] += v
    return viols, obs, obs["cxx_cases"]


def cxxlife_pass(prop, tier, seed):
    """C15, C++ half: the destructor of reproc::process against the real library and free-running children (src/cxxlife.cpp)."""
    import os
    import shutil
    from concurrent.futures import ThreadPoolExecutor
    vchild = build.build_vchild()
    binp = build.build_cxxio("asan", "cxxlife")
    env = dict(os.environ)
    env.update(core.SAN_ENV)
    nw = 8
    root = os.path.join(core.BUILD, "run", "cxxlife.%d" % os.getpid())
    os.makedirs(root, exist_ok=True)

    def work(w):
        return core.run_timed([binp, vchild, os.path.join(root, "w%d" % w), str(w), str(nw), tier, str(seed)], env, 900 if tier == "quick" else 3600)
    with ThreadPoolExecutor(nw) as ex:
        outs = list(ex.map(work, range(nw)))
    shutil.rmtree(root, ignore_errors=True)
    names = ["cxx_dtor_cases", "cxx_dtor_violations", "cxx_destructors", "cxx_dtor_signals", "cxx_dtor_lower_bounds", "cxx_dtor_reaped",
             "cxx_dtor_left_running", "cxx_dtor_slow", "cxx_dtor_moved", "cxx_dtor_no_signal", "cxx_dtor_unclear"]
    obs = {n: 0 for n in names}
    viols = []
    for rc, out, err in outs:
        if rc in (124, 3):
            obs["harness_timeouts"] = obs.get("harness_timeouts", 0) + 1
        elif rc not in (0, 1):
            kind = "asan" if "AddressSanitizer" in err else "ubsan" if "runtime error" in err else "crash"
            viols.append((prop, "%s/cxxlife/%s" % (prop, kind), "C++ destructor harness died rc=%d: %s" % (rc, err[-500:]), {"seed": seed, "module": "cxxlife"}, [err[-2000:]]))
        for line in out.splitlines():
            f = line.split("\t")
            if f[0] == "V" and len(f) >= 4:
                viols.append((prop, "%s/cxxlife/%s" % (prop, f[1]), "%s [%s]" % (f[3], f[2]), {"seed": seed, "module": "cxxlife", "case": f[2]}, [line[:400]]))
            elif f[0] == "S":
                for n, v in zip(names, [int(x) for x in f[1:]]):
                    obs[n] += v
    del obs["cxx_dtor_violations"]
    return viols, obs, obs["cxx_dtor_cases"]


WIN_HANDLE_CLASSES = {
    "C10": ("win-std-handles", "win-start-failed", "win-process-handle", "win-handle-not-made-inheritable",
            # src/win.c --redirect: redirect.windows.c (which object, which direction)
            "win-parent-wrong-std-id", "win-parent-wrong-handle", "win-parent-missing-not-reported", "win-file-redirect-failed",
            "win-file-wrong-direction", "win-file-wrong-name", "win-file-disposition", "win-file-handle", "win-redirect-handle-closed"),
    "C11": ("win-handle-list-not-in-force", "win-handle-list-missing", "win-handle-list-foreign", "win-foreign-handle-made-inheritable",
            "win-file-inheritable", "win-process-created-without-handle-list"),
    "C05": ("win-closes-callers-handle", "win-thread-handle", "win-fault-leak", "win-start-leak", "win-destroy-closes", "win-redirect-handle-closed"),
    "C04": ("win-fault-wrong-error", "win-fault-handle-set", "win-fault-process-created"),
    # src/win.c --life: wait / terminate / kill / pid of process.windows.c at the Win32 boundary
    "C01": ("win-wait-status", "win-life-failure-not-reported"),
    "C06": ("win-wait-target", "win-terminate-target", "win-kill-target", "win-pid"),
    "C07": ("win-terminate-target", "win-kill-target", "win-life-failure-not-reported"),
}
WIN_MODE = {"C10": ["--handles", "--redirect"], "C11": ["--handles", "--redirect"], "C05": ["--handles", "--life", "--redirect"], "C04": ["--handles"],
            "C01": ["--life"], "C06": ["--life"], "C07": ["--life"]}


def win_handles_pass(prop, tier, seed):
    """Windows halves of C10 / C11 / C05 as far as they show at the CreateProcessW boundary: process.windows.c runs
    against the stubbed Win32 layer of the C18 engine (src/win.c --handles); what it passes as standard handles,
    inheritance list and flags, and which handles it closes, is compared with the handles it was given."""
    import os
    from concurrent.futures import ThreadPoolExecutor
    modes = WIN_MODE[prop]
    try:
        bins = {m: build.build_win("asan", extra=m in ("--life", "--redirect")) for m in modes}
    except build.Inconclusive as e:
        # the pass calls internal functions of the Windows back-end directly; if their signatures changed it
        # cannot be built - that must not hide what the main engines found (too few cases => inconclusive)
        print("note: Windows boundary pass not built: %s" % str(e).splitlines()[-1][:200])
        return [], {"win_pass_unavailable": 1, "win_handle_cases": 0}, 0
    env = dict(os.environ)
    env.update(core.SAN_ENV)
    nw = 4

    def work(job):
        mode, w = job
        return core.run_timed([bins[mode], mode, str(w), str(nw), tier, str(seed)], env, 600)
    with ThreadPoolExecutor(nw) as ex:
        outs = list(ex.map(work, [(m, w) for m in modes for w in range(nw)]))
    obs = {"win_handle_cases": 0}
    viols = []
    mine = WIN_HANDLE_CLASSES[prop]
    for rc, out, err in outs:
        if rc == 124:
            obs["harness_timeouts"] = obs.get("harness_timeouts", 0) + 1
        elif rc not in (0, 1):
            viols.append((prop, "%s/winh/crash" % prop, "Windows handle harness died rc=%d: %s" % (rc, err[-500:]), {"seed": seed, "module": "winh"}, [err[-2000:]]))
        for line in out.splitlines():
            f = line.split("\t")
            if f[0] == "V" and len(f) >= 4 and f[1] in mine:
                viols.append((prop, "%s/winh/%s" % (prop, f[1]), "%s [%s, Windows source on stubs]" % (f[3], f[2]), {"seed": seed, "module": "winh", "case": f[2]}, [line[:400]]))
            elif f[0] == "H":
                obs["win_handle_cases"] += int(f[1])
    return viols, obs, obs["win_handle_cases"]


EXAMPLE_RUNS = [
    ("drain", ["echo", "hello"]), ("drain", ["sh", "-c", "echo out; echo err >&2; exit 3"]), ("drain", ["sh", "-c", "head -c 300000 /dev/zero | tr '\\0' x"]),
    ("drain", ["/nonexistent/program"]), ("drain", ["true"]),
    ("read", ["echo", "hi"]), ("read", ["sh", "-c", "echo a; sleep 0.05; echo b >&2"]), ("read", ["/nonexistent/program"]),
    ("read", ["sh", "-c", "head -c 200000 /dev/zero | tr '\\0' y"]),
    ("run", ["echo", "hi"]), ("run", ["sh", "-c", "exit 7"]), ("run", ["sleep", "0.2"]), ("run", ["/nonexistent/program"]),
    ("parent", ["echo", "hi"]), ("parent", ["cat"]), ("parent", ["sh", "-c", "exit 5"]), ("parent", ["/nonexistent/program"]),
    ("path", ["sh", "-c", "echo x; echo y >&2"]), ("path", ["/nonexistent/program"]),
    ("env", ["VERIF_EXAMPLE=1", "OTHER=two words"]), ("env", []),
    ("poll", []),
    # reproc++/examples/*.cpp (the C library's resources under the C++ wrapper's destructors and drain loops)
    ("xx_drain", ["echo", "hello"]), ("xx_drain", ["sh", "-c", "echo out; echo err >&2; exit 3"]), ("xx_drain", ["/nonexistent/program"]),
    ("xx_drain", ["sh", "-c", "head -c 250000 /dev/zero | tr '\\0' z"]),
    ("xx_run", ["echo", "hi"]), ("xx_run", ["sh", "-c", "exit 4"]), ("xx_run", ["/nonexistent/program"]),
    ("xx_forward", ["echo", "hi"]), ("xx_forward", ["sh", "-c", "exit 6"]), ("xx_forward", ["/nonexistent/program"]),
    ("xx_background", ["sh", "-c", "echo a; sleep 0.2; echo b >&2"]), ("xx_background", ["/nonexistent/program"]),
    ("xx_background", ["sh", "-c", "head -c 150000 /dev/zero | tr '\\0' w"]),
]


def examples_pass(prop, tier, seed):
    """C05, realistic-usage half: the repository's own example programs (reproc/examples/*.c and reproc++/examples/*.cpp, main renamed) linked
    against the interposed library under ASan+UBSan with the ownership ledger on (src/exdrv.c)."""
    import os
    import shutil
    import subprocess
    from concurrent.futures import ThreadPoolExecutor
    bins = build.build_examples("asan")
    env = dict(os.environ)
    env.update(core.SAN_ENV)
    root = os.path.join(core.BUILD, "run", "ex.%d" % os.getpid())
    os.makedirs(root, exist_ok=True)
    runs = [(i, n, a) for i, (n, a) in enumerate(EXAMPLE_RUNS) if n in bins] * (1 if tier == "quick" else 5)

    def work(job):
        i, n, a = job
        cwd = os.path.join(root, "r%d.%d" % (i, id(job) % 100000))
        os.makedirs(cwd, exist_ok=True)
        try:
            p = subprocess.run([bins[n]] + a, stdin=subprocess.DEVNULL, stdout=subprocess.DEVNULL, stderr=subprocess.PIPE, env=env, cwd=cwd,
                               timeout=120, text=True, errors="replace")
            return n, a, p.returncode, p.stderr
        except subprocess.TimeoutExpired:
            return n, a, 124, ""
    with ThreadPoolExecutor(8) as ex:
        outs = list(ex.map(work, runs))
    shutil.rmtree(root, ignore_errors=True)
    obs = {"example_runs": 0, "example_programs": set()}
    viols = []
    for n, a, rc, err in outs:
        what = "%s %s" % (n, " ".join(a))
        case = {"seed": seed, "module": "examples", "example": n, "args": a}
        if rc == 124:
            obs["harness_timeouts"] = obs.get("harness_timeouts", 0) + 1
            continue
        line = [l for l in err.splitlines() if l.startswith("EXDRV\t")]
        if not line:
            kind = "asan" if "AddressSanitizer" in err else "ubsan" if "runtime error" in err else "assert" if "Assertion" in err else "crash"
            viols.append((prop, "%s/examples/%s:%s" % (prop, kind, n), "example '%s' died (rc=%d): %s" % (what, rc, err[-400:]), case, [err[-2000:]]))
            continue
        obs["example_runs"] += 1
        obs["example_programs"].add(n)
        f = dict(x.split("=", 1) for x in line[0].split("\t")[1:])
        for key, cls, msg in (("owned_fds", "fd-leak", "descriptors still owned by the library when the example's main returned"),
                              ("live_allocs", "memory-leak", "allocations never released"),
                              ("foreign_close", "foreign-close", "close() of descriptors the library did not open"),
                              ("double_close", "double-close", "descriptors closed twice"),
                              ("unknown_free", "unknown-free", "free() of pointers the library did not allocate"),
                              ("badtarget", "badtarget", "kill/waitpid aimed at something that is not a live child of the library"),
                              ("zombies", "zombie-left", "children left unreaped"),
                              ("running", "child-left-running", "a child is still running after the example finished")):
            if int(f.get(key, "0")):
                viols.append((prop, "%s/examples/%s:%s" % (prop, cls, n), "example '%s': %s %s" % (what, f[key], msg), case, [line[0]]))
        if f.get("fd_table_same") != "1":
            viols.append((prop, "%s/examples/fd-table-changed:%s" % (prop, n), "example '%s': the descriptor table differs from the one before main" % what, case, [line[0]]))
    return viols, obs, obs["example_runs"]


def rt_pass(prop, tier, seed):
    """C08, real-clock cross-check of the virtual-time engine (src/rt.c): real clock, real kernel, children that
    live a given number of ms. Lower bounds are judged; a result later than bound + 1.5 s only counts as slow."""
    import os
    import shutil
    from concurrent.futures import ThreadPoolExecutor
    vchild = build.build_vchild()
    binp = build.build_rt("asan")
    env = dict(os.environ)
    env.update(core.SAN_ENV)
    nw = 8
    root = os.path.join(core.BUILD, "run", "rt.%d" % os.getpid())
    os.makedirs(root, exist_ok=True)

    def work(w):
        return core.run_timed([binp, vchild, os.path.join(root, "w%d" % w), str(w), str(nw), tier, str(seed)], env,
                              700 if tier == "quick" else 3300)
    with ThreadPoolExecutor(nw) as ex:
        outs = list(ex.map(work, range(nw)))
    shutil.rmtree(root, ignore_errors=True)
    names = ["rt_cases", "rt_violations", "rt_waits", "rt_polls", "rt_stops", "rt_lower_bounds_checked", "rt_slow",
             "rt_timeouts", "rt_statuses", "rt_deadline_events", "rt_badtargets", "rt_children_polled_together"]
    obs = {n: 0 for n in names}
    viols = []
    for rc, out, err in outs:
        if rc in (124, 142):   # wall-clock limit / the harness's own alarm
            obs["harness_timeouts"] = obs.get("harness_timeouts", 0) + 1
        elif rc not in (0, 1):
            kind = "asan" if "AddressSanitizer" in err else "ubsan" if "runtime error" in err else "crash"
            viols.append((prop, "%s/rt/%s" % (prop, kind), "real-clock harness died rc=%d: %s" % (rc, err[-500:]), {"seed": seed, "module": "rt"}, [err[-2000:]]))
        for line in out.splitlines():
            f = line.split("\t")
            if f[0] == "V" and len(f) >= 4:
                viols.append((prop, "%s/rt/%s" % (prop, f[1]), "%s [%s, real clock]" % (f[3], f[2]), {"seed": seed, "module": "rt", "case": f[2]}, [line[:400]]))
            elif f[0] == "S":
                for n, v in zip(names, [int(x) for x in f[1:]]):
                    obs[n] += v
            elif f[0] == "I":
                obs["rt_setup_failures"] = obs.get("rt_setup_failures", 0) + 1
    return viols, obs, obs["rt_cases"]


def stress_pass(prop, tier, seed):
    """C02, real-concurrency half: free-running children with random chunking and micro-sleeps, reader and writer
    threads per child, several children at once, under ASan+UBSan (src/mt.c, the C20 harness, built with ASan)."""
    import os
    import shutil
    import subprocess
    from concurrent.futures import ThreadPoolExecutor
    vchild = build.build_vchild()
    binp = build.build_mt("asan")
    env = dict(os.environ)
    env.update(core.SAN_ENV)
    reps = 12 if tier == "quick" else 240
    nproc = 4
    root = os.path.join(core.BUILD, "run", "stress.%d" % os.getpid())
    os.makedirs(root, exist_ok=True)

    def work(i):
        rc_, out_, err_ = core.run_timed([binp, vchild, os.path.join(root, "p%d" % i), str(reps // nproc), str(seed * 977 + i), "8"], env, 900 if tier == "quick" else 3600)
        return rc_, out_, err_
    with ThreadPoolExecutor(nproc) as ex:
        outs = list(ex.map(work, range(nproc)))
    shutil.rmtree(root, ignore_errors=True)
    names = ["stress_children", "stress_bytes_verified", "stress_violations", "x1", "x2", "stress_streams_complete", "x3"]
    obs = {"stress_children": 0, "stress_bytes_verified": 0, "stress_streams_complete": 0}
    viols = []
    for rc, out, err in outs:
        if rc == 124:
            obs["harness_timeouts"] = obs.get("harness_timeouts", 0) + 1
        elif rc not in (0, 1, 3):
            kind = "asan" if "AddressSanitizer" in err else "ubsan" if "runtime error" in err else "crash"
            viols.append((prop, "%s/stress/%s" % (prop, kind), "stress harness died rc=%d: %s" % (rc, err[-500:]), {"seed": seed, "module": "stress"}, [err[-2000:]]))
        for line in out.splitlines():
            f = line.split("\t")
            if f[0] == "V" and len(f) >= 4 and f[1] in ("output-length", "output-crosstalk", "read-failed", "write-failed", "drain-failed", "stdin-pipe-leaked-to-sibling"):
                viols.append((prop, "%s/stress/%s" % (prop, f[1]), "%s [%s]" % (f[3], f[2]), {"seed": seed, "module": "stress", "where": f[2]}, [line[:400]]))
            elif f[0] == "S":
                vals = [int(x) for x in f[1:]]
                for n, v in zip(names, vals):
                    if n in obs:
                        obs[n] += v
    return viols, obs, obs["stress_children"]


KERNEL_TRUST = [
    "Linux pipe/signal/wait semantics and /proc are trusted (ground truth comes from waitid(WNOWAIT))",
    "the virtual clock replaces clock_gettime/poll for the library only; the helper child acts only on scheduled events",
    "POSIX back-end only: the Windows back-ends cannot execute on this image",
]

CHECKS = {
    "C01": scen_check(
        [("eng_life", "asan"), ("eng_life", "asan-nd")], "exploration",
        "random API histories (1-8 calls of wait/stop/terminate/kill/pid/sleep) against scripted children on a "
        "virtual timeline, run against the library built with its asserts on and again with NDEBUG (the shipped configuration); first 256 cases enumerate every exit code, next 23 every terminating signal; "
        "non-trivial = a status was returned and checked against the kernel's waitid() account; distinct = "
        "(ending kind, code/signal class, op-sequence shape)",
        {"status_returns": 1500, "stable_rechecks": 500, "codes_seen": 250, "win_handle_cases": 5000},
        assumptions=KERNEL_TRUST + ["Windows half only at the Win32 boundary (stubs): process_wait returns exit codes 0..255 unchanged and maps the CTRL-BREAK exit code to 128+15"],
        extra=win_handles_pass),
    "C06": scen_check(
        [("eng_life", "asan"), ("eng_fault", "asan-nd"), ("eng_seq", "asan-nd")], "fault_enumeration",
        "union of the life-engine workloads (status histories, stop grids, destroy states) plus the complete start-time "
        "fault campaign of C04 followed by pid/start/terminate/kill/wait/terminate/kill/destroy; every kill/waitpid "
        "the library issues is checked against the set of live, unreaped children it forked (signals to pid<=0 are "
        "blocked, not forwarded), plus the scripted API calls on the child side of a fork-mode start, where the handle refers to no "
        "child at all; non-trivial = at least one kill or waitpid record observed",
        {"kill_records": 500, "waitpid_records": 500, "post_reap_signal_calls": 50, "fork_child_calls": 300, "win_handle_cases": 5000},
        assumptions=KERNEL_TRUST + ["Windows half only at the Win32 boundary (stubs): wait, CTRL-BREAK (to the group whose id is the child's process id), TerminateProcess and GetProcessId are aimed at the handle they were given"],
        extra=win_handles_pass),
    "C07": scen_check(
        [("eng_life", "asan"), ("eng_life", "asan-nd", {"tiers": ["thorough"]})], "exploration",
        "stop requests from the grid action^3 in {noop,wait,terminate,kill,7} x timeout^3 in {0,40,INFINITE,DEADLINE} "
        "(thorough: complete grid x 4 rotations of child behaviour/deadline/state; quick: every action triple x3 plus "
        "a seeded sample) compared with an executable model of the documented contract on the same virtual timeline "
        "(return value, return time, time-stamped signals, expected hangs); non-trivial = a stop call was compared; "
        "distinct = (actions, timeouts, child exit time, SIGTERM/SIGKILL reaction, deadline, state)",
        {"stops_checked": 3000, "expected_hangs": 20, "timeouts": 60, "statuses": 500, "win_handle_cases": 5000},
        assumptions=KERNEL_TRUST + ["Windows half only at the Win32 boundary (stubs): terminate is one CTRL-BREAK event, kill one TerminateProcess with code 137"],
        exhaustive_thorough=False, extra=win_handles_pass),
    "C15": scen_check(
        [("eng_life", "asan"), ("eng_life", "asan-nd", {"tiers": ["thorough"]})], "exploration",
        "destroy in the states {running x3, ended, reaped, not started, failed start, parent side of fork, started again after a "
        "failed start that had its own deadline and policy} with default "
        "and random stop policies, deadlines {none,60,expired} and every child behaviour; signals/time compared "
        "with the stop model, ledger + kernel ground truth after destroy; plus the C++ half (src/cxxlife.cpp, real clock): the destructor of "
        "reproc::process objects started through reproc::options (three-step policies with different timeouts, default policy with/without "
        "deadline, waits that all expire, moved-from and never-started objects) - time-stamped signals of the library compared with the policy "
        "(kinds, order, lower bounds) and the child's state afterwards; non-trivial = a destroy was checked",
        {"destroys": 2000, "expected_hangs": 10, "states": 6, "cxx_destructors": 200, "cxx_dtor_signals": 100, "cxx_dtor_reaped": 80, "cxx_dtor_lower_bounds": 200},
        assumptions=KERNEL_TRUST + ["the C++ destructor pass runs in real time and judges signal kinds/order, lower bounds and the end state only; cases later than bound + 1.5 s are counted as slow and not judged"],
        extra=cxxlife_pass),
    "C08": scen_check(
        [("eng_poll", "asan"), ("eng_poll", "asan-nd", {"tiers": ["thorough"]})], "exploration",
        "reproc_poll over 1-5 sources of kinds {no process, no deadline, deadline +30/+70/+110, expired} in every order "
        "(thorough: complete kinds^n x timeout grid for n<=3, sampled beyond; quick: complete for n<=2 + sample) with "
        "timeouts {0,20,60,200,INFINITE} and child output/exit placed before/between/after the bounds, plus a complete "
        "reproc_wait grid timeout x deadline x exit time; exact virtual return times compared with "
        "min(timeout, earliest deadline); polls over 65-300 sources (most process-less or repeated) under a descriptor limit of 256; plus a real-clock cross-check of the virtual-time harness (src/rt.c: waits, polls and stop escalation "
        "against children that live 5-2000 ms of real time; lower bounds only); non-trivial = a poll/wait was compared; distinct = (source kinds in order, timeout, activity)",
        {"polls_checked": 2500, "expired_deadline_polls": 300, "deadline_events": 80, "timeouts": 200,
         "wait_timeouts": 100, "expected_hangs": 10, "rt_cases": 300, "rt_lower_bounds_checked": 300,
         "rt_timeouts": 80, "rt_statuses": 40, "rt_deadline_events": 10},
        assumptions=KERNEL_TRUST + ["the real-clock pass (480 cases; thorough 2400) judges lower bounds only - not earlier than a timeout or deadline, no status or exit event before the child can have ended; results later than bound + 1.5 s are counted as slow (machine load), never as violations"],
        extra=rt_pass),
    "C09": scen_check(
        [("eng_poll", "asan"), ("eng_poll", "asan-nd", {"tiers": ["thorough"]}), ("eng_poll", "plain", {"tiers": ["thorough"], "limit": 300,
                              "prefix": ["valgrind", "-q", "--error-exitcode=99", "--num-callers=12"]})], "exploration",
        "random multi-source polls (1-4 sources incl. process-less ones, all 16 interest masks) over 1-3 children whose "
        "streams are put in every state (idle, data pending, closed by child, closed by parent, not a pipe, stdin full; "
        "child running/exited/reaped, fork mode, never started); reported bits compared with ground truth rebuilt from "
        "child acks and kernel end events; every reported event is probed (read/write/wait(0) must not block); "
        "non-trivial = a poll was compared",
        {"polls_checked": 2500, "event_polls": 1000, "probes": 1000, "epipe_expected": 50, "bits_checked": 1500},
        assumptions=KERNEL_TRUST),
    "C02": scen_check(
        [("eng_io", "asan"), ("eng_io", "asan-nd"), ("eng_io", "plain", {"tiers": ["thorough"], "limit": 300,
                              "prefix": ["valgrind", "-q", "--error-exitcode=99", "--num-callers=12"]})], "exploration",
        "six workload templates (bulk output over both streams with sizes 0..5 MB straddling 64 KiB; fine-grained "
        "interleavings of child writes/closes/exit with parent reads of sizes 0,1,7,4096,65536; stdin transfers in every "
        "chunk size followed by close; start-up input; mixed; nonblocking empty/data/EOF) in blocking and nonblocking mode "
        "with err in {pipe, stdout, parent, discard}; payloads are position-coded and verified byte by byte, EOF placement "
        "is checked against acknowledged child writes/closes; plus a real-concurrency pass (free-running children writing in random "
        "chunks with micro-sleeps and echoing up to 1 MiB of stdin, reader and writer threads, 2-8 children at once, ASan); "
        "non-trivial = at least one read or write was checked",
        {"reads": 3000, "bytes_verified": 15000000, "epipes": 1000, "eagains": 100, "size0_reads": 100,
         "stdin_bytes_verified": 10000000, "eof_checks": 500, "stress_children": 30, "stress_bytes_verified": 5000000},
        assumptions=KERNEL_TRUST, extra=stress_pass),
    "C16": scen_check(
        [("eng_io", "asan"), ("eng_io", "asan-nd", {"tiers": ["thorough"]}), ("eng_io", "plain", {"tiers": ["thorough"], "limit": 300,
                              "prefix": ["valgrind", "-q", "--error-exitcode=99", "--num-callers=12"]})], "exploration",
        "reproc_drain / reproc_run_ex over children writing 0..1 MB in 1-5 chunks to both streams, closing streams before "
        "exiting, with err in {pipe, stdout, parent, discard}; recording sinks (every call logged and content-verified), "
        "sinks failing at call k with positive/negative results (including the error values the library itself gives a meaning to: closed stream, timeout, try-again), string sinks with/without prefix, realloc failing at "
        "growth step k, deadlines before/during/after the output, second drain on closed streams; plus a C++ pass: reproc::drain / "
        "reproc::run (drain.hpp, run.hpp) with recording lambdas, failing sinks, sink::string / thread_safe::string / ostream / "
        "discard against free-running children on the real library (the thread-safe sink while another thread keeps taking the mutex and watches the strings); non-trivial = a drain/run was compared",
        {"drains": 1500, "sink_calls": 10000, "closing_calls": 900, "sink_failures": 50, "string_sinks": 150,
         "realloc_faults_fired": 50, "timeouts": 50, "runs": 300, "cxx_cases": 400, "cxx_sink_calls": 1500,
         "cxx_runs": 100, "cxx_string_sinks": 50, "cxx_timeouts": 50, "cxx_looks_under_mutex": 20, "cxx_runs_that_must_stop_the_child": 40},
        assumptions=KERNEL_TRUST + ["the C++ pass runs free-running helper children in real time: only time-independent facts are asserted (plus 'an expired deadline with open streams yields timed_out')"],
        extra=cxxio_pass),
    "C17": scen_check(
        [("eng_io", "asan"), ("eng_io", "asan-nd")], "exploration",
        "reads/writes on every pipe state (empty, partly filled, full, far side closed) with an idle, slow or never-reading "
        "child, nonblocking (2/3) and blocking (1/3), start-up input sizes {0,1,4096,65535,65536,65537,70000,1M}; waiting is "
        "observed at the libc boundary (virtual-time advance inside read/write, O_NONBLOCK flag of the descriptor); "
        "an eighth of the cases first make a failing start on the same handle that asks for the other mode; "
        "non-trivial = an I/O call or an input start was checked",
        {"nb_calls": 1500, "blocking_calls": 500, "blocking_waits": 50, "input_starts": 100,
         "input_failed_starts": 20}, assumptions=KERNEL_TRUST),
    "C04": scen_check(
        "eng_fault", "fault_enumeration",
        "phase 1 traces a fault-free start of each of 24 option scenarios (redirect families, input, working directory, environment, nonblocking, deadline, fork mode, relative program, caller without standard streams, own descriptors as handles, deep working directory) and reads off every libc call site (side, function, "
        "index) on both sides of fork; phase 2 injects one plausible errno (plus EINTR where interruptible) at every site, and "
        "pairs of sites (quick: 130 sampled pairs per scenario, thorough: 2600); plus natural causes (missing/non-executable/"
        "directory/dangling-interpreter/over-long/empty program, bad working directory, unusable redirect path, closed handle, "
        "RLIMIT_NOFILE swept 3..21); after the start: child census, reproc_pid, second start, helper's hello; "
        "non-trivial = a planned fault fired or a natural cause applied; distinct = (scenario, fault plan)",
        {"faults_fired": 3000, "sites": 2000, "failed_starts": 1500, "restarts_checked": 1500, "natural_checked": 50, "win_handle_cases": 5000},
        config="asan-nd", extra=win_handles_pass, assumptions=KERNEL_TRUST + ["Windows half only at the Win32 boundary (stubs): each Win32 call process_start depends on fails in turn; the error must come back, no process handle, no CreateProcessW after an earlier failure", "faults are injected at the libc boundary (a call returns -1/errno without being performed; close is performed first; waitpid/ECHILD is performed first)"]),
    "C05": scen_check(
        [("eng_fault", "asan-nd"), ("eng_ident", "asan"), ("eng_ledger", "asan-nd")], "fault_enumeration",
        "same campaign as C04 with the ownership ledger as oracle: every pipe/open/dup the library makes is owned, every "
        "close/free must hit an owned object exactly once, at the end of start/pid/start/terminate/kill/wait/destroy nothing "
        "may be owned, the /proc/self/fd table must equal the one before reproc_new, no child of the runner may be left and "
        "every user-supplied handle/FILE/standard stream must still be open; the same ledger oracle also runs (fault-free) over "
        "all 262 redirect configurations x 9 descriptor situations of C10, and over a slice of the workloads of C07/C08/C09/C14/C15/C16/C17 "
        "(poll and wait grids with expired deadlines, random call sequences, drain/run, stop and destroy in every state) whenever "
        "every handle of the case was destroyed again; plus the repository's own example programs (reproc/examples, reproc++/examples) on 35 command lines under the ledger; "
        "non-trivial = fault fired or fault-free scenario",
        {"ledger_checks": 3000, "faults_fired": 3000, "sites": 2000, "config_ledger_checks": 2000,
         "sequence_ledger_checks": 2500, "sequence_sources": 6, "win_handle_cases": 5000, "example_runs": 18, "example_programs": 6},
        assumptions=KERNEL_TRUST + ["Windows half only at the CreateProcessW boundary: the thread handle is closed once, no handle of the caller is closed"],
        extra=[win_handles_pass, examples_pass]),
    "C12": scen_check(
        "eng_fault", "fault_enumeration",
        "same campaign with random initial signal masks and dispositions (default/ignore/handler for SIGINT, SIGUSR1, SIGUSR2): "
        "sigmask, 64-entry sigaction table, cwd and environ are snapshotted immediately before and after every reproc_start "
        "return; the helper reports SigBlk/SigIgn as it found them at exec; faults in the restoring sigmask call are exempt",
        {"caller_checks": 5000, "child_sig_checks": 2000, "faults_fired": 3000}, config="asan-nd", assumptions=KERNEL_TRUST),
    "C10": scen_check(
        "eng_ident", "exploration",
        "all 6x6x7 explicit per-stream redirect type combinations plus the shorthands and the all-defaults case, each with the "
        "parent's descriptors 0/1/2 open or closed in all 8 combinations (exhaustive over the stated quantifier in both "
        "tiers: 262 configurations x 8 masks = 2096 cases); the helper child reports "
        "(st_dev, st_ino, st_rdev, mode, access mode) of its descriptors 0/1/2 as found at exec, compared with the object the "
        "options designate; parent-side pipe ends and read/write EPIPE behaviour checked; non-trivial = a child reported",
        {"streams_checked": 6000, "configs": 262, "pipes_checked": 1000, "nulldev_fallbacks": 400, "win_handle_cases": 5000},
        assumptions=KERNEL_TRUST + ["Windows half only at the CreateProcessW boundary: process.windows.c on stubbed Win32 functions; the standard handles it passes must be the ones it was given"],
        exhaustive_thorough=True, exhaustive_quick=True, extra=win_handles_pass),
    "C11": scen_check(
        "eng_ident", "exploration",
        "the parent opens 1-300 extra descriptors (files, pipes, sockets; half without close-on-exec) at random numbers up to "
        "limit-1 (always including limit-1 in a third of the cases) under RLIMIT_NOFILE in {64,256,1024,4096,20000}, with 8 "
        "redirect families and closed std descriptors; the helper lists /proc/self/fd before opening anything; a seventh of the children are started in fork mode "
        "(their side of the fork may keep what the streams were made from and the exit handle, nothing else of the parent); non-trivial = "
        "a child reported its table; every case draws its own descriptor set, so distinct = cases (concurrent starts from threads are exercised by C20's engine)",
        {"children_checked": 600, "noncloexec_extra": 2000, "limit_minus_1_cases": 100, "limits": 3, "win_handle_cases": 5000, "fork_mode_children_checked": 60},
        assumptions=KERNEL_TRUST + ["Windows half only at the CreateProcessW boundary: the inheritance list must be in force (bInheritHandles, EXTENDED_STARTUPINFO_PRESENT, attribute list) and hold exactly the three stream handles and the exit handle"],
        extra=win_handles_pass),
    "C03": scen_check(
        [("eng_ident", "asan"), ("eng_fault", "asan-nd")], "exploration",
        "argv of 0-59 strings over bytes 1-255 (empty, blanks, quotes, backslashes, '=', invalid UTF-8, up to 70 kB each), "
        "extra environments with duplicates, parent environments of 0-200 random entries, both env behaviours, working "
        "directories, programs named by absolute path, three relative forms (with a decoy of the same name in the requested "
        "working directory), bare name through PATH, parent cwd of 1.8-18 kB depth; the helper reports argv/env/cwd/exe; plus the single-fault "
        "campaign of C04 over the scenarios with extra environment, working directory and start-up input: whenever start still reports "
        "success the child must have exactly the requested argv, environment and cwd; "
        "non-trivial = a launch was compared",
        {"launches_checked": 1000, "args_compared": 5000, "env_entries_compared": 5000, "relative_programs": 250,
         "deep_cwd_cases": 100, "path_searches": 100, "fault_launches_compared": 300}, assumptions=KERNEL_TRUST),
    "C14": scen_check(
        [("eng_seq", "asan"), ("eng_seq", "asan-nd"),
         ("eng_seq", "plain", {"tiers": ["thorough"], "limit": 800,
                               "prefix": ["valgrind", "-q", "--error-exitcode=99", "--num-callers=12"]})], "exploration",
        "random sequences of 1-40 calls over {new, start (valid / invalid options / missing program), pid, wait, terminate, "
        "kill, stop, read, write, close, poll, drain, sleep, destroy, destroy(NULL)} on 1-3 handles plus the NULL handle, with "
        "arbitrary parameters (bad stream numbers, NULL buffers, out-of-range stop actions), against children with scripted "
        "output/close/read/exit events; run under ASan+UBSan with library asserts on and again with NDEBUG (thorough: 800 "
        "sequences once more under valgrind memcheck, which sees uninitialised reads ASan cannot); the oracle is a "
        "life-cycle state machine asserting only state-determined results; non-trivial = more than 3 ops checked",
        {"ops_checked": 50000, "state_op_pairs": 45, "einval_checks": 5000, "epipe_checks": 3000, "cached_status_checks": 500},
        assumptions=KERNEL_TRUST),
    "C20": {"run": eng_mt.run, "level": "exploration", "module": "eng_mt"},
    "C19": {"run": eng_cxx.run, "level": "exploration", "module": "eng_cxx"},
    "C18": {"run": eng_win.run, "level": "exploration", "module": "eng_win"},
    "C13": {"run": eng_opts.run, "level": "exploration", "module": "eng_opts"},
}


# manifest texts per property: (engine name, technique, level text, level note, design ref)
MANIFEST_TEXT = {
    "C01": ("life", "runtime monitor: return values vs kernel waitid() ground truth + libc trace, virtual clock, ASan/UBSan",
            "Every status the library returns is compared with the kernel's own account of how the child ended "
            "(waitid WNOWAIT), over all 256 exit codes, all 23 terminating signals and thousands of random call "
            "histories on a deterministic virtual timeline; stability, immediacy and single reap are read off the "
            "libc trace. Held-on-what-was-observed, not a proof.",
            "kernel wait/signal semantics trusted; POSIX back-end only", "DESIGN.md 3/C01"),
    "C06": ("life", "runtime monitor: kill/waitpid arguments checked against the live-children set at the libc boundary, incl. after every start-time fault",
            "Every kill and waitpid the library issues, in every life-engine history and after start-time faults, is checked "
            "online against the set of children it forked and has not reaped; signals to pid<=0 or foreign pids are "
            "blocked and reported.", "interposition by symbol (import audit guards it); POSIX only", "DESIGN.md 3/C06"),
    "C07": ("life", "runtime monitor: executable reference model of the stop contract on a virtual timeline",
            "Each reproc_stop call is compared (return value, exact virtual return time, time-stamped signals, hang/no hang) "
            "with a 40-line model of the documented contract; the model's child is validated against kernel ground truth.",
            "model transcribed from reproc.h and the property statement; zombie-signal leniency", "DESIGN.md 3/C07"),
    "C15": ("life", "runtime monitor: stop-policy model + signal log + reap probe + fd/heap ledger at destroy",
            "reproc_destroy is observed in every handle state with default and random stop policies; signals, timing, reaping, "
            "ledger emptiness and the null return are checked; expected hangs are matched in zero real time.",
            "unbounded 'does not return until exited' is checked as 'returned only after reaped / hang matched'", "DESIGN.md 3/C15"),
    "C08": ("poll", "runtime monitor: exact virtual return times vs min(timeout, earliest deadline); kernel ground truth",
            "Every reproc_poll/reproc_wait return is compared, in exact virtual milliseconds, with the bound the contract gives "
            "(timeout, earliest deadline among all sources, expired deadlines, until-deadline waits), over complete small grids of "
            "source kinds in every order and sampled larger ones.",
            "ties between timeout and deadline are avoided by construction; among several already-expired deadlines any may carry the event",
            "DESIGN.md 3/C08"),
    "C09": ("poll", "runtime monitor: reported event bits vs ground-truth stream/process state; probing calls after each event",
            "Reported bits are compared with the true state of every stream and child (bytes acknowledged written minus read, closes, "
            "kernel end events) and every reported event is probed by the matching read/write/wait(0), which must not block.",
            "stdin writability is asserted only when the pipe holds <= 4096 bytes or was filled to EAGAIN (page arithmetic in between is kernel business)",
            "DESIGN.md 3/C09"),
    "C02": ("io", "runtime monitor: position-coded payloads verified byte-for-byte; EOF/EPIPE placement vs acknowledged child writes",
            "Every byte crossing a pipe is position-coded, so loss, duplication or reordering is visible at a known offset; the "
            "closed-stream error is accepted only when ground truth (child acks, closes, kernel end events) says all data was "
            "delivered and no writer is left; stdin content is verified inside the child, EOF is demanded after close/input.",
            "a size-0 read is only required not to report a closed stream; deadlocks the scenario itself creates are matched as expected hangs",
            "DESIGN.md 3/C02"),
    "C16": ("io", "runtime monitor: recorded sink-call sequence vs documented drain protocol; realloc fault at each growth step",
            "Sinks record every call (sink, tag, size, content check, virtual time); the sequence is compared with the documented "
            "protocol (two initial calls, right sink and tag, one closing call per closing piped stream, stop at first non-zero "
            "result, ETIMEDOUT at the deadline, 0 only with both streams closed); string sinks are checked for exact content, "
            "also with a prefix and when realloc fails at step k; reproc_run_ex and reproc_run must return the kernel's status (or the timeout error when every wait of the stop policy expired), and reproc_run without redirect options must hand the child the parent's own streams.",
            "positive sink results are not errors for run; the C++ pass is real-time, so it asserts no timing",
            "DESIGN.md 3/C16"),
    "C17": ("io", "runtime monitor: virtual-time advance inside read/write at the libc boundary; O_NONBLOCK state of the descriptor",
            "Whether a call waited is observed directly: the interposed read/write/poll record when virtual time had to advance "
            "and whether the descriptor carried O_NONBLOCK. Nonblocking calls must never wait nor hang, start with input must "
            "not wait and must deliver exactly the input + EOF or fail; blocking reads may wait only until the first child event "
            "on that stream, blocking writes only until the child made room.",
            "how much room a partial child read makes for a blocked write is kernel page arithmetic: only 'returned at a child event' is asserted",
            "DESIGN.md 3/C17"),
    "C04": ("fault", "fault injection at every traced libc call site (singles + pairs), both sides of fork; outcome oracle",
            "Call sites are discovered by tracing each scenario, not listed by hand, so the enumeration follows the code. After each "
            "faulted start the monitor checks the two consistent outcomes only: failure with the real errno, no child left, pid EINVAL, "
            "handle restartable - or success with a positive forked pid whose program said hello.",
            "one plausible errno per call plus EINTR, and for getrlimit two value faults (unlimited / above the library's ceiling); scenarios include a caller without standard streams and a working directory longer than one getcwd step; faults at the libc boundary only; build with NDEBUG (the shipped configuration) so injected close/sigmask failures reach release behaviour",
            "DESIGN.md 3/C04"),
    "C05": ("fault", "ownership ledger (fd + heap) at the libc boundary + /proc/self/fd snapshot + child census, under fault enumeration",
            "Every descriptor and allocation the library acquires is entered in a ledger inside the interposed call; closes and frees "
            "must hit owned objects exactly once; after destroy the ledger, the descriptor table and the child census must be back "
            "to the state before reproc_new and user-supplied objects must still be open - on every single and sampled pairwise fault path.",
            "parent side only (the forked child legitimately closes everything before exec)", "DESIGN.md 3/C05"),
    "C12": ("fault", "before/after snapshots of sigmask, sigaction table, cwd, environ around start + child's SigBlk/SigIgn, under fault enumeration",
            "Caller state is snapshotted immediately around every reproc_start return (success and every faulted failure path) and must be "
            "identical; the started program reports the signal mask and ignore set it was exec'ed with.",
            "a fault injected into the restoring sigmask call itself is exempt, as the property states", "DESIGN.md 3/C12"),
    "C10": ("ident", "runtime monitor: identity (st_dev, st_ino, st_rdev, access mode) of the child's descriptors 0/1/2 vs the object the options designate",
            "The started program itself reports what its descriptors 0, 1 and 2 are, as found at exec; the oracle computes the "
            "expected object from the documented effective redirect (pipe created in this start with the parent holding the other "
            "end; the parent's own stream or the null device when the parent has none; null device; the child's stdout; the supplied "
            "handle/FILE; the path). The whole stated configuration space (262 x 8) is enumerated.",
            "user handles are opened before 0-2 are closed so they stay >= 3 (crossing user handles onto 0-2 is outside the stated quantifier)",
            "DESIGN.md 3/C10"),
    "C11": ("ident", "runtime monitor: the child's /proc/self/fd listing taken before it opens anything",
            "With up to 300 extra descriptors of mixed kinds open in the parent at random numbers up to limit-1 (half without "
            "close-on-exec), the started program must see exactly 0, 1, 2 and one pipe (the exit handle).",
            "concurrent starts from several threads are observed by the C20 engine, not here", "DESIGN.md 3/C11"),
    "C03": ("ident", "runtime monitor: the child's own report of argv, envp, cwd and executable vs the generator's expectation",
            "The helper finds its control socket through a file next to its executable, so argv and the environment are entirely "
            "under test; it reports them byte for byte together with cwd and /proc/self/exe; decoy programs of the same relative "
            "name make resolution against the wrong directory visible.",
            "PATH search only where parent and child PATH agree; beyond PATH_MAX only a clean failure is required (ASan watches the buffer arithmetic)",
            "DESIGN.md 3/C03"),
    "C14": ("seq", "runtime monitor: life-cycle reference state machine over random API sequences + ASan/UBSan/library asserts",
            "Random call sequences including misuse (calls before start, after exit, after destroy via NULL, bad stream numbers, "
            "NULL buffers, second start, polls over unstarted handles) are executed for real; every state-determined result is "
            "compared with the model and any sanitizer report, assert or signal is a violation. Coverage is measured as visited "
            "(state, operation) pairs.",
            "data- and timing-dependent results are only required to lie in the operation's documented result set; the fork-child state is exercised by C15",
            "DESIGN.md 3/C14"),
    "C20": ("mt", "ThreadSanitizer on the library + per-child cross-talk oracle (payload, exit code, descriptor table, EOF), injected delays at the libc boundary",
            "The documented concurrent uses (reader + writer thread on one child; complete cycles on different children from 2-16 threads "
            "with simultaneous starts; concurrent reproc_strerror) run under ThreadSanitizer with seeded delays between the library's "
            "critical steps; every child carries a unique payload and exit code, reports the descriptor table it was exec'ed with, and must "
            "see EOF on its own stdin while its siblings are alive.",
            "held on the interleavings observed (their count is reported), not on all schedules; helgrind is not used (false races after fork)",
            "DESIGN.md 3/C20"),
    "C19": ("cxx", "runtime monitor: reproc++ compiled from the tree against a recording fake C API; field-by-field and result-by-result comparison under ASan/UBSan",
            "reproc.cpp and the headers are linked against fake reproc_* functions that record everything they receive and return "
            "scripted values, so every field, container conversion, constant and return path of the wrapper is observed directly.",
            "the fake C API is the trusted base; behaviour of the wrapper against the real library is exercised by C16's C++ pass",
            "DESIGN.md 3/C19"),
    "C18": ("win", "runtime monitor: Windows sources executed on Linux against Win32 stubs under ASan/UBSan; independent command-line and env-block decoders",
            "process.windows.c, utf.windows.c and handle.windows.c from the tree are compiled with -D_WIN32 against a stub windows.h and "
            "really executed; the command line and environment block handed to CreateProcessW are captured and decoded by an "
            "independent implementation of the documented parsing rules; ASan checks every buffer (sizes are computed by the code "
            "under test), including the block walk that needs the final NUL.",
            "the stubs and the decoder are part of the trusted base; only the string/buffer code is run, not the Windows process back-end",
            "DESIGN.md 3/C18"),
    "C13": ("opts", "runtime monitor: independent rule table vs reproc_start's verdict + libc trace of the redirect set-up, in-process enumeration",
            "All 8.2 million redirect assignments (thorough) are run through the real reproc_start with fork made to fail; the oracle is a "
            "transcription of the documented rules. Rejections must be EINVAL with no descriptor- or process-creating call before them, "
            "acceptances must set up exactly the documented effective redirect for each stream.",
            "out-of-range types and parent+discard with nothing left to compete for are don't-care; HANDLE vs STDOUT resolution is C10's job",
            "DESIGN.md 3/C13"),
}

ENGINE_PATHS = {"mt": "eng_mt.py", "cxx": "eng_cxx.py", "win": "eng_win.py", "seq": "eng_seq.py", "opts": "eng_opts.py", "life": "eng_life.py", "poll": "eng_poll.py", "io": "eng_io.py", "fault": "eng_fault.py", "ident": "eng_ident.py"}
ENGINE_KINDS = {
    "mt": "multi-threaded harness src/mt.c built with -fsanitize=thread; delay injection in the interposition layer",
    "cxx": "in-process C++ harness src/cxx.cpp: fake C API + reproc.cpp from the tree",
    "win": "Windows sources compiled with -D_WIN32 against stubs/windows.h; in-process enumerator src/win.c",
    "seq": "scenario runner on a virtual clock; random API sequences; builds asan (asserts on) and asan-nd",
    "opts": "in-process enumerator (src/opts.c) linked against the interposed library; fork fails with a reserved errno",
    "ident": "helper child reports its own fd table / argv / env / cwd over a control socket found via its executable's directory",
    "fault": "fault injector in the interposition layer (errno faults, value faults, delayed interruptions, short transfers); call sites discovered by tracing; scenario runner as vehicle; for C05 also lib/eng_ident.py (all redirect configurations) and lib/eng_ledger.py (ledger oracle over the other engines' workloads)",
    "io": "scenario runner on a virtual clock; position-coded streams; recording sinks; ground-truth stream model",
    "poll": "scenario runner on a virtual clock; ground-truth stream state model (lib/model_io.py); C08 adds a small real-clock cross-check (src/rt.c)",
    "life": "scenario runner (src/scen.c) on a virtual clock with scripted helper child; python reference models",
}
NOT_APPLICABLE = {}
