"""Driver core: worker pool over the scenario runner, verdict folding, known findings,
evidence and replay files. stdlib only."""
import hashlib
import json
import multiprocessing
import os
import random
import shutil
import subprocess
import sys
import time

VERIF = os.path.dirname(os.path.dirname(os.path.abspath(__file__)))
BUILD = os.environ.get("VERIF_BUILD", os.path.join(VERIF, "build"))
NWORKERS = int(os.environ.get("VERIF_WORKERS", "16"))
OUT = os.environ.get("VERIF_OUT", VERIF)  # evidence/ and replays/ live here (redirected for mutant runs)

SAN_ENV = {
    "ASAN_OPTIONS": "abort_on_error=1:detect_leaks=0:allocator_may_return_null=1:handle_abort=0",
    "UBSAN_OPTIONS": "print_stacktrace=1:halt_on_error=1",
    "TSAN_OPTIONS": "halt_on_error=0:second_deadlock_stack=1",
}

EINVAL, EPIPE, ETIMEDOUT, ENOMEM, EAGAIN = -22, -32, -110, -12, -11
INFINITE, DEADLINE = -1, -2
NOOP, WAIT, TERMINATE, KILL = 0, 1, 2, 3
EV_IN, EV_OUT, EV_ERR, EV_EXIT, EV_DEADLINE = 1, 2, 4, 8, 16
R_DEFAULT, R_PIPE, R_PARENT, R_DISCARD, R_STDOUT, R_HANDLE, R_FILE, R_PATH = range(8)


class Case:
    __slots__ = ("id", "script", "meta", "sig")

    def __init__(self, cid, script, meta=None, sig=None):
        self.id = str(cid)
        self.script = script
        self.meta = meta or {}
        self.sig = sig  # structural signature (for distinct counting)


class Log:
    """Parsed output of one runner."""
    __slots__ = ("lines", "ops", "events", "fin", "stderr", "end", "raw")

    def __init__(self):
        self.lines = []
        self.ops = []
        self.events = []
        self.fin = None
        self.stderr = ""
        self.end = ""
        self.raw = []

    def crashed(self):
        return not self.end.startswith("exit 0")


def run_scen(scen_bin, vchild, cases, scratch, env_extra=None, prefix=None):
    """Run cases through one scen process; yields (case, Log)."""
    env = dict(os.environ)
    env.update(SAN_ENV)
    if env_extra:
        env.update(env_extra)
    inp = "".join("%s %s\n" % (c.id, c.script) for c in cases)
    p = subprocess.Popen((prefix or []) + [scen_bin, vchild, scratch], stdin=subprocess.PIPE, stdout=subprocess.PIPE,
                         stderr=subprocess.DEVNULL, env=env)
    out, _ = p.communicate(inp.encode())
    logs = {}
    cur = None
    for line in out.decode("utf-8", "replace").splitlines():
        if line.startswith("BEGIN "):
            cur = Log()
            logs[line[6:].strip()] = cur
        elif cur is None:
            continue
        elif line.startswith("END "):
            cur.end = line.split(" ", 2)[2] if line.count(" ") >= 2 else ""
            cur = None
        elif line.startswith("STDERR "):
            cur.stderr = line[7:]
        else:
            cur.raw.append(line)
            try:
                d = json.loads(line)
            except ValueError:
                cur.lines.append({"garbled": line[:200]})
                continue
            cur.lines.append(d)
            if "op" in d:
                cur.ops.append(d)
            elif "ev" in d:
                cur.events.append(d)
            elif "fin" in d:
                cur.fin = d
    res = []
    for c in cases:
        lg = logs.get(c.id)
        if lg is None:
            lg = Log()
            lg.end = "missing"
        res.append((c, lg))
    return res


def run_timed(cmd, env, timeout):
    """Run an in-process engine binary with a generous wall-clock limit. Returns (rc, stdout, stderr);
    rc 124 = the limit fired (the run is then inconclusive, never a pass)."""
    p = subprocess.Popen(cmd, stdout=subprocess.PIPE, stderr=subprocess.PIPE, env=env, text=True, errors="replace",
                         start_new_session=True)
    try:
        out, err = p.communicate(timeout=timeout)
        return p.returncode, out, err
    except subprocess.TimeoutExpired:
        cpu = _cpu_seconds(p.pid)
        try:
            os.killpg(p.pid, 9)  # the engine's own session only
        except OSError:
            pass
        out, err = p.communicate()
        if cpu >= max(120.0, 0.5 * timeout):
            # it was not waiting for anything: it computed for minutes where seconds are normal
            SPINS.append((os.path.basename(cmd[0]), cpu, timeout))
        return 124, out or "", (err or "") + "\nTIMEOUT after %ds (%.0f s of CPU time used)" % (timeout, cpu)


SPINS = []   # engine processes killed at their wall-clock limit after burning CPU most of that time


def _cpu_seconds(pid):
    """utime + stime of a process (all its threads), from /proc; 0 if it is gone."""
    try:
        f = open("/proc/%d/stat" % pid).read()
        rest = f[f.rindex(")") + 2:].split()
        return (int(rest[11]) + int(rest[12])) / float(os.sysconf("SC_CLK_TCK"))
    except (OSError, ValueError, IndexError):
        return 0.0


class Violation:
    __slots__ = ("prop", "key", "msg", "case", "log")

    def __init__(self, prop, key, msg):
        self.prop = prop
        self.key = key
        self.msg = msg
        self.case = None
        self.log = None


def crash_key(log):
    """Stable class for a crashed runner."""
    s = log.stderr
    kind = "crash"
    for pat, k in (("Invalid read of size", "memcheck-invalid-read"), ("Invalid write of size", "memcheck-invalid-write"),
                   ("uninitialised value", "memcheck-uninitialised"), ("uninitialised byte", "memcheck-uninitialised"),
                   ("Invalid free", "memcheck-invalid-free"), ("Mismatched free", "memcheck-invalid-free"),
                   ("AddressSanitizer: heap-use-after-free", "asan-uaf"),
                   ("AddressSanitizer: heap-buffer-overflow", "asan-heap-overflow"),
                   ("AddressSanitizer: stack-buffer-overflow", "asan-stack-overflow"),
                   ("AddressSanitizer: attempting double-free", "asan-double-free"),
                   ("AddressSanitizer", "asan"),
                   ("runtime error", "ubsan"),
                   ("Assertion", "assert")):
        if pat in s:
            kind = k
            break
    if kind == "assert":
        import re
        m = re.search(r"(\w+\.c):\d+: (\w+): Assertion `([^']*)'", s)
        if m:
            kind = "assert:%s:%s" % (m.group(2), m.group(3).replace(" ", ""))
    lastop = log.ops[-1]["op"] if log.ops else "-"
    return kind, lastop


# ---------------------------------------------------------------- worker pool
def _worker(args):
    (modname, prop, tier, seed, widx, nworkers, scen_bin, vchild, replay_cases, opts) = args
    mod = __import__(modname)
    eng = mod.ENGINE
    if replay_cases is not None:
        cases = [Case(c["id"], c["script"], c.get("meta"), c.get("sig")) for c in replay_cases]
    else:
        cases = eng.cases(prop, tier, seed)
    if opts.get("limit"):
        cases = cases[:opts["limit"]]
    mine = cases[widx::nworkers]
    scratch = os.path.join(BUILD, "run", "%d.%d" % (os.getppid(), widx))
    stats = {"evaluations": 0, "nontrivial_sigs": set(), "obs": {}, "inconclusive": 0, "samples": []}
    viols = []
    t0 = time.time()
    pending = mine
    for attempt in range(2):
        retry = []
        if not pending:
            break
        if attempt == 1 and len(pending) > 8:
            # far too many cases hit the watchdog or went missing: systematic, not load
            stats["inconclusive"] += len(pending)
            stats.setdefault("inconclusive_cases", []).extend(c.script for c in pending[:3])
            break
        for c, lg in run_scen(scen_bin, vchild, pending, scratch, prefix=opts.get("prefix")):
            if lg.end in ("watchdog", "missing") and attempt == 0:
                retry.append(c)
                continue
            if lg.end in ("watchdog", "missing"):
                stats["inconclusive"] += 1
                stats.setdefault("inconclusive_cases", []).append(c.script)
                continue
            stats["evaluations"] += 1
            fin = getattr(lg, "fin", None) or {}
            if lg.end == "spin":
                # the case process used more than 20 s of CPU time (its own, not wall-clock) without finishing:
                # the library spins - every wait of these engines is virtual, nothing legitimate takes that long
                lastop = lg.ops[-1]["op"] if lg.ops else "start-of-case"
                vs, obs, nontrivial = [Violation(prop, "%s/cpu-spin:after-%s" % (prop, lastop),
                                                 "the case burnt more than 20 s of CPU time after its last completed call (%s) and never finished" % lastop)], {}, True
            elif fin.get("runaway"):
                # step-count verdict of the interposer: a forked child exceeded its call budget
                # (a loop over descriptors/signals that would not end); the trace is not meaningful
                vs, obs, nontrivial = [Violation(prop, "%s/runaway-child-loop:%s" % (prop, fin["runaway"]),
                                                 "the forked child made more than 400000 calls (last: %s) before exec: a loop that does not end" % fin["runaway"])], {}, True
            elif fin.get("overflow"):
                # more library calls in one case than the trace area holds: the judges would see
                # a truncated trace - not a verdict either way
                stats["inconclusive"] += 1
                stats.setdefault("inconclusive_cases", []).append("trace-overflow: " + c.script)
                continue
            else:
                vs, obs, nontrivial = eng.judge(prop, c, lg)
            for k, v in obs.items():
                if isinstance(v, set):
                    stats["obs"].setdefault(k, set()).update(v)
                else:
                    stats["obs"][k] = stats["obs"].get(k, 0) + v
            if nontrivial:
                stats["nontrivial_sigs"].add(c.sig or hashlib.md5(c.script.encode()).hexdigest())
            for v in vs:
                v.case = {"id": c.id, "script": c.script, "meta": c.meta, "sig": c.sig}
                v.log = lg.raw[-60:] + (["STDERR " + lg.stderr[:3000]] if lg.stderr else []) + ["END " + lg.end]
                viols.append(v)
            if len(stats["samples"]) < 2 and nontrivial:
                stats["samples"].append({"case": c.script, "meta": c.meta,
                                         "log_excerpt": lg.raw[:12]})
        pending = retry
    shutil.rmtree(scratch, ignore_errors=True)
    stats["wall"] = time.time() - t0
    return stats, [(v.prop, v.key, v.msg, v.case, v.log) for v in viols]


def run_engine(modname, prop, tier, seed, scen_bin, vchild, replay_cases=None, opts=None):
    nw = NWORKERS if replay_cases is None else min(NWORKERS, max(1, len(replay_cases)))
    args = [(modname, prop, tier, seed, i, nw, scen_bin, vchild, replay_cases, opts or {}) for i in range(nw)]
    with multiprocessing.Pool(nw) as pool:
        results = pool.map(_worker, args)
    total = {"evaluations": 0, "nontrivial_sigs": set(), "obs": {}, "inconclusive": 0, "samples": []}
    viols = []
    for stats, vs in results:
        total["evaluations"] += stats["evaluations"]
        total["inconclusive"] += stats["inconclusive"]
        total["nontrivial_sigs"].update(stats["nontrivial_sigs"])
        for k, v in stats["obs"].items():
            if isinstance(v, set):
                total["obs"].setdefault(k, set()).update(v)
            else:
                total["obs"][k] = total["obs"].get(k, 0) + v
        total["samples"].extend(stats["samples"])
        total.setdefault("inconclusive_cases", []).extend(stats.get("inconclusive_cases", []))
        viols.extend(vs)
    return total, viols


# ---------------------------------------------------------------- known findings
def load_known(path=os.path.join(VERIF, "known_findings.txt")):
    known = {}
    try:
        for line in open(path):
            line = line.strip()
            if not line.startswith("finding:"):
                continue
            parts = line[len("finding:"):].split()
            prop = key = None
            rest = []
            for p in parts:
                if p.startswith("property=") and prop is None:
                    prop = p[9:]
                elif p.startswith("key=") and key is None:
                    key = p[4:]
                else:
                    rest.append(p)
            if prop and key:
                known[(prop, key)] = " ".join(rest)
    except OSError:
        pass
    return known


class Inconclusive(Exception):
    pass


def conclude(prop, tier, seed, level, total, viols, t0, rule, min_obs=None, extra_cov=None,
             assumptions=None, exhaustive=False):
    """Fold results, write evidence + replays, print verdict lines, return exit code."""
    known = load_known()
    by_key = {}
    viols = list(viols)
    for name, cpu, limit in SPINS:
        viols.append((prop, "%s/cpu-spin:engine:%s" % (prop, name),
                      "an engine process (%s) was killed at its %d s limit after %.0f s of CPU time: the code under test spins" % (name, limit, cpu),
                      {"seed": seed, "module": name}, []))
    del SPINS[:]
    for (p, key, msg, case, log) in viols:
        if p != prop:
            continue
        by_key.setdefault(key, []).append((msg, case, log))
    # a pairwise fault plan whose violation class already shows with one of its faults alone is
    # the same finding: fold "class@A+B" into "class@A" (or "class@B") when that key exists
    for key in sorted(by_key):
        if "@" not in key or "+" not in key.split("@", 1)[1]:
            continue
        cls, plan = key.split("@", 1)
        for single in plan.split("+"):
            tgt = "%s@%s" % (cls, single)
            if tgt in by_key and tgt != key:
                by_key[tgt].extend(by_key.pop(key))
                break
    rc = 0
    nviol = 0
    os.makedirs(os.path.join(OUT, "replays", prop), exist_ok=True)
    for key in sorted(by_key):
        items = by_key[key]
        if (prop, key) in known:
            print("KNOWN-FINDING: property=%s %s [key=%s, %d cases]" % (prop, known[(prop, key)], key, len(items)))
            continue
        nviol += len(items)
        rc = 1
        fn = os.path.join(OUT, "replays", prop,
                          hashlib.md5(key.encode()).hexdigest()[:12] + ".json")
        msg, case, log = items[0]
        with open(fn, "w") as f:
            json.dump({"property": prop, "key": key, "message": msg, "count": len(items),
                       "cases": [it[1] for it in items[:5]], "log": log}, f, indent=1)
        print("VIOLATION property=%s replay=%s key=%s (%d cases) %s" % (prop, fn, key, len(items), msg))
    obs = {k: (len(v) if isinstance(v, set) else v) for k, v in total["obs"].items()}
    inconclusive = []
    if total["inconclusive"]:
        inconclusive.append("%d cases hit the watchdog twice or overflowed the trace area" % total["inconclusive"])
        for sc in total.get("inconclusive_cases", [])[:3]:
            print("WATCHDOG case: %s" % sc)
    for k, need in (min_obs or {}).items():
        if obs.get(k, 0) < need:
            inconclusive.append("observed %s=%d < required %d" % (k, obs.get(k, 0), need))
    if obs.get("harness_timeouts", 0):
        inconclusive.append("%d engine processes hit their wall-clock limit" % obs["harness_timeouts"])
    if obs.get("model_kernel_disagree", 0):
        inconclusive.append("reference child model and kernel disagree in %d cases (harness problem)"
                            % obs["model_kernel_disagree"])
    cov = {
        "evaluations": total["evaluations"],
        "distinct_nontrivial": len(total["nontrivial_sigs"]),
        "rule": rule,
        "samples": total["samples"][:3],
        "observed": obs,
        "known_findings_matched": sorted(k for k in by_key if (prop, k) in known),
        "inconclusive": inconclusive,
    }
    if exhaustive:
        cov["exhaustive"] = True
    if extra_cov:
        cov.update(extra_cov)
    ev = {"property_id": prop, "tier": tier, "seed": seed, "level": level, "coverage": cov,
          "assumptions": assumptions or [], "wall_s": round(time.time() - t0, 2),
          "violations": nviol}
    os.makedirs(os.path.join(OUT, "evidence"), exist_ok=True)
    with open(os.path.join(OUT, "evidence", prop + ".json"), "w") as f:
        json.dump(ev, f, indent=1, default=lambda o: sorted(o) if isinstance(o, set) else str(o))
    print("%s %s seed=%d: %d cases, %d distinct non-trivial, %d violations, %.1fs; observed %s" % (
        prop, tier, seed, cov["evaluations"], cov["distinct_nontrivial"], nviol,
        ev["wall_s"], json.dumps(obs, sort_keys=True)))
    if rc == 0 and inconclusive:
        print("INCONCLUSIVE property=%s: %s" % (prop, "; ".join(inconclusive)))
        return 2
    return rc


def rng_for(seed, *parts):
    h = hashlib.sha256(("%d/" % seed + "/".join(str(p) for p in parts)).encode()).digest()
    return random.Random(int.from_bytes(h[:8], "little"))
