"""Engine 'ledger' (C05, second half): the ownership ledger as the only oracle, over the
workloads the other scenario engines generate for their own properties - poll/wait grids
with live and expired deadlines (C08), random call sequences (C14), drain/run (C16),
destroy in every state (C15), stop grids (C07). "For any sequence of API calls ending in
destroy": a case is judged when every handle it created was destroyed again and nothing
hung; then nothing may be owned, no allocation may be live, no close/free may have hit a
foreign object, and the descriptor table must be the one before reproc_new."""
from core import Case, Violation, crash_key

SOURCES = [("eng_poll", "C08"), ("eng_seq", "C14"), ("eng_io", "C16"), ("eng_life", "C15"), ("eng_life", "C07"),
           ("eng_io", "C17"), ("eng_poll", "C09")]
QUOTA = {"quick": 700, "thorough": 6000}
TABLE_CHANGERS = ("CLOSE012", "OPENFDS", "hlow=", "CHDIR", "CWDPAD")   # scenarios that change the caller's own table


def close_out(script):
    """Scenario text with a destroy appended for every handle still alive at the end (run cases
    never destroy the scenario's own, unstarted handle)."""
    live = []
    for part in script.split(" ; "):
        tok = part.split()
        if len(tok) >= 2 and tok[0] == "N" and tok[1] not in live:
            live.append(tok[1])
        elif len(tok) >= 2 and tok[0] == "D" and tok[1] in live:
            live.remove(tok[1])
    return script + "".join(" ; D %s" % h for h in live)


def all_destroyed(script):
    live = set()
    for part in script.split(" ; "):
        tok = part.split()
        if len(tok) >= 2 and tok[0] == "N":
            live.add(tok[1])
        elif len(tok) >= 2 and tok[0] == "D":
            live.discard(tok[1])
    # handles created with N but never started still own their allocation until D
    return not live


class LedgerEngine:
    name = "ledger"

    def cases(self, prop, tier, seed):
        out = []
        for modname, p in SOURCES:
            eng = __import__(modname).ENGINE
            cs = eng.cases(p, tier, seed)
            step = max(1, len(cs) // QUOTA[tier])
            for c in cs[::step][:QUOTA[tier]]:
                script = close_out(c.script)
                if not all_destroyed(script):
                    continue
                meta = {"src": "%s/%s" % (modname, p)}
                out.append(Case("L%s-%s" % (p, c.id), script, meta,
                                "ledger/%s/%s" % (p, c.sig or c.id)))
        # its own few cases: each stream of a fully piped child closed by the parent - once, twice, with a read or
        # write on the closed stream, with descriptors of the caller opened in between - then destroy
        k = 0
        for st in (0, 1, 2):
            for variant in range(6):
                ops = ["CL 0 %d" % st]
                if variant in (1, 3, 5):
                    ops.append("CL 0 %d" % st)
                if variant in (2, 3):
                    ops.append("RD 0 %d 10" % st if st else "WR 0 10")
                if variant in (4, 5):
                    ops.insert(1, "OPENFDS 3 %d 0" % (1000 + k))
                for nb in (0, 1):
                    script = "N 0 ; S 0 in=1 out=1 err=1 nb=%d ignpipe=1 stop=3:-1:0:0:0:0 ; %s ; D 0" % (nb, " ; ".join(ops))
                    out.append(Case("Lclose-%d" % k, script, {"src": "eng_ledger/close"}, "ledger/close/%d/%d/%d" % (st, variant, nb)))
                    k += 1
        return out

    def judge(self, prop, case, log):
        vs = []
        obs = {"sequence_ledger_checks": 0, "sequence_sources": set()}
        src = case.meta["src"]

        def V(key, msg):
            vs.append(Violation("C05", "C05/ledger/%s:%s" % (key, src.split("/")[1]), "%s [workload of %s]" % (msg, src)))

        if log.crashed():
            # crashes of these workloads are reported by the property that owns them
            return vs, obs, False
        fin = log.fin
        if fin is None or fin.get("hang") or any("hang" in o for o in log.ops):
            return vs, obs, False
        if any(o.get("op") == "S" and o.get("ret") == 0 for o in log.ops):
            return vs, obs, False   # child side of a fork-mode start is judged by C15
        obs["sequence_ledger_checks"] = 1
        obs["sequence_sources"].add(src)
        if fin.get("double_close"):
            V("double-close", "%d descriptor(s) closed twice" % fin["double_close"])
        if fin.get("foreign_close"):
            V("foreign-close", "%d close() of descriptors the library did not open" % fin["foreign_close"])
        if fin.get("unknown_free"):
            V("unknown-free", "%d free() of pointers the library did not allocate (or freed twice)" % fin["unknown_free"])
        if fin.get("owned_fds"):
            V("fd-leak", "descriptors still owned by the library after every handle was destroyed: %s" % fin["owned_fds"])
        if fin.get("live_allocs"):
            V("memory-leak", "%d allocations never released although every handle was destroyed" % fin["live_allocs"])
        if not any(x in case.script for x in TABLE_CHANGERS):
            snap0 = [l for l in log.lines if l.get("snap") == 0]
            if snap0:
                before = sorted((f[0], f[1], f[2]) for f in snap0[0]["fds"])
                after = sorted((f[0], f[1], f[2]) for f in fin["fds"])
                if before != after:
                    V("fd-table-changed", "descriptor table before %s, after %s" % (before, after))
        for h, st, kind, isopen in fin.get("user_objs", []):
            if not isopen and not any(x in case.script for x in TABLE_CHANGERS):
                V("user-object-closed:%s" % kind, "the %s supplied for stream %d is no longer open" % (kind, st))
        return vs, obs, True


ENGINE = LedgerEngine()
