"""Engine 'fault': single and pairwise fault enumeration at every libc call reproc_start
makes (both sides of fork), discovered by tracing. Serves C04 (all-or-nothing start),
C05 (no leak / foreign close), C12 (caller untouched, clean child) and C06 (targets)."""
import errno as E
import json
import os
import subprocess

from core import Case, Violation, crash_key, rng_for, SAN_ENV, BUILD, EINVAL
from scengen import start_tokens

SCENARIOS = [
    ("default", {}),
    ("discard", {"rdiscard": 1}),
    ("parent", {"rparent": 1}),
    ("path", {"out": 7, "err": 7}),
    ("file", {"out": 6, "err": 6}),
    ("handle", {"in": 5, "out": 5, "err": 5}),
    ("errstdout", {"err": 4}),
    ("input", {"input": 100}),
    ("wd", {"wd": 1}),
    ("envextend", {"extra": 3}),
    ("envempty", {"env": 1, "extra": 3}),
    ("nonblocking", {"nb": 1, "err": 1}),
    ("deadline", {"dl": 100, "stop": "1:10:2:20:3:-1"}),
    ("fork", {"fork": 1}),
    ("shortpath", {"rpath": 1}),
    ("shortfile", {"rfile": 1}),
    # relative program name + different working directory, with a decoy of the same name there
    ("wdrel", {"progx": "702f78", "wdx": "656c73657768657265",
               "_setup": "MKDIRS 70 ; LINKVC 0 78 right ; CHDIR 2e2e ; MKDIRS 656c736577686572652f70 ; LINKVC 0 78 wrong ; CHDIR 2e2e2f2e2e"}),
    # caller without standard streams: every descriptor the library obtains lands on 0-2 and is moved
    ("closedstd", {"_setup": "CLOSE012 7", "_cmask": 7}),
    ("closedstd-path", {"in": 7, "out": 7, "err": 1, "nb": 1, "_setup": "CLOSE012 3", "_cmask": 3}),
    # ... and no stream of the child is a pipe: the only pipes are the library's internal ones
    # (error report, exit detection), which then get descriptors 0-2 from the kernel
    # the caller's own stdout as the handle for the child's stderr while stdout is a pipe; and
    # stderr on the child's stdout while that is the parent's (both go through the copy the child
    # makes of a source numbered below the stream it is for)
    ("selfhandle", {"herrfd": 1}),
    ("parent-errstdout", {"out": 2, "err": 4}),
    ("closedstd-discard", {"rdiscard": 1, "_setup": "CLOSE012 7", "_cmask": 7}),
    ("closedstd-parent", {"rparent": 1, "_setup": "CLOSE012 6", "_cmask": 6}),
    # relative program under a working directory longer than one getcwd buffer step
    # (the resolved name is then longer than PATH_MAX, so exec itself must fail with ENAMETOOLONG)
    ("wdreldeep", {"progx": "2e2f78", "wdx": "2f", "_setup": "CWDPAD 5000 ; LINKVC 0 78 right", "_natural": -E.ENAMETOOLONG}),
]

PLAUSIBLE = {
    "pipe": E.EMFILE, "open": E.ENFILE, "fork": E.EAGAIN, "fcntl": E.EBADF, "dup2": E.EBADF,
    "chdir": E.EACCES, "getcwd": E.EACCES, "getrlimit": E.EPERM, "malloc": E.ENOMEM,
    "calloc": E.ENOMEM, "realloc": E.ENOMEM, "strdup": E.ENOMEM, "execvp": E.ENOEXEC,
    "sigaction": E.EFAULT, "sigmask": E.EFAULT, "read": E.EIO, "write": E.EIO,
    "waitpid": E.ECHILD, "kill": E.EPERM, "poll": E.ENOMEM, "close": E.EIO, "fileno": E.EBADF,
    "sigemptyset": E.EINVAL, "sigfillset": E.EINVAL,
}
# value faults (the call succeeds with a value this machine cannot produce for real) -> the error start must report
VALUE_FAULTS = {30001: E.EMFILE, 30002: E.EMFILE}   # getrlimit: unlimited / just above the library's ceiling
INTERRUPTIBLE = {"read", "write", "open", "waitpid", "close", "dup2", "poll"}
NOT_FAULTED = {"free", "_exit", "clock_gettime", "other"}

PRELUDE = "rlimit 64 ; faults1 ; ENV 6 %d ; MASK %x ; SIGACT %d %d ; SIGACT %d %d ; SIGACT %d %d"
SIGS_OK = [1, 2, 3, 5, 6, 10, 12, 13, 14, 15, 16, 20, 21, 22, 23, 24, 25, 26, 27, 28, 29, 30, 31]
TAIL = "P 0 ; %s ; P 0 ; T 0 ; K 0 ; W 0 -1 ; T 0 ; K 0 ; D 0"

_sites_cache = {}


TAIL_NORESTART = "P 0 ; D 0"
TAIL_FAILAGAIN = "P 0 ; %s ; P 0 ; D 0"


def script_for(name, opts, faults, r, natural=False, tail=0):
    mask = r.choice([0, 0x4002, 0x7fffbeff & ~(1 << 8), 0x200, r.getrandbits(31), r.getrandbits(63)])
    mask &= ~((1 << 8) | (1 << 18) | (1 << 10) | (1 << 6) | (1 << 7) | (1 << 3))  # not KILL/STOP (no-ops) nor SEGV/BUS/FPE/ILL (sanitizer needs them)
    sg = r.sample(SIGS_OK, 3)
    pre = PRELUDE % (r.randrange(1000), mask, sg[0], r.randrange(3), sg[1], r.randrange(3), sg[2], 1 + r.randrange(2))
    if r.random() < 0.1:
        pre += " ; " + " ; ".join("SIGACT %d %d" % (s_, 1 + r.randrange(2)) for s_ in SIGS_OK)
    ftok = " ; ".join("F %d %s %d %d" % f for f in faults)
    o = dict(opts)
    o["ident"] = 1
    setup = o.pop("_setup", None)
    o.pop("_cmask", None)
    nat = o.pop("_natural", None)
    s1 = start_tokens(0, o)
    parts = [pre]
    if ftok:
        parts.append(ftok)
    if setup:
        s2 = start_tokens(0, {"ident": 1}) if nat is not None else s1
        parts += ["N 0", setup, s1, (TAIL % s2) if tail == 0 else TAIL_NORESTART]
        return " ; ".join(parts), mask
    if tail == 1:
        parts += ["N 0", s1, TAIL_NORESTART]
    elif tail == 2:
        parts += ["N 0", s1, TAIL_FAILAGAIN % start_tokens(0, {"prog": "missing", "out": 7, "pathmode": "missing"})]
    else:
        parts += ["N 0", s1, TAIL % s1]
    return " ; ".join(parts), mask


def discover_sites(scen_bin, vchild, name, opts):
    """Phase 1: run the scenario fault-free with full tracing; the call sites of the first
    start are (side, fn, k)."""
    key = name
    if key in _sites_cache:
        return _sites_cache[key]
    import random
    script, _ = script_for(name, opts, [], random.Random(1))
    script = "traceall ; " + script
    env = dict(os.environ)
    env.update(SAN_ENV)
    scratch = os.path.join(BUILD, "run", "disc.%d" % os.getpid())
    p = subprocess.run([scen_bin, vchild, scratch, "--one", script], stdout=subprocess.PIPE,
                       stderr=subprocess.DEVNULL, env=env)
    sites = []
    for line in p.stdout.decode("utf-8", "replace").splitlines():
        try:
            d = json.loads(line)
        except ValueError:
            continue
        if d.get("op") == "S":
            for t in d["tr"]:
                fn, side, k = t[0], t[1], t[2]
                if fn in NOT_FAULTED:
                    continue
                sites.append((side, fn, k))
            break
    import shutil
    shutil.rmtree(scratch, ignore_errors=True)
    _sites_cache[key] = sites
    return sites


OPS_SCENARIOS = [
    ("pollwait", "N 0 ; S 0 err=1 nb=1 stop=3:-1:0:0:0:0 ; E 0 5 W 1 100 ; E 0 15 W 2 10 ; E 0 45 X 3 ; PL 10 1 0 15 ; RD 0 1 50 ; "
                 "PL 0 1 0 6 ; W 0 10 ; RD 0 2 50 ; WR 0 10 ; W 0 100 ; W 0 0 ; D 0"),
    ("drain", "N 0 ; S 0 err=1 text=1 stop=3:-1:0:0:0:0 ; E 0 5 W 1 5000 ; E 0 15 W 2 100 ; E 0 25 X 0 ; DR 0 s3 c ; ST 0 1 100 0 0 0 0 ; D 0"),
    ("stopdestroy", "N 0 ; S 0 dl=30 stop=1:20:2:20:3:-1 term=ign ; CL 0 0 ; W 0 -2 ; D 0"),
    ("runex", "N 0 ; E 0 5 W 1 300 ; E 0 15 X 4 ; S 0 err=1 text=1 runex=s0,c"),
]


def discover_op_sites(scen_bin, vchild, name, script):
    key = "ops-" + name
    if key in _sites_cache:
        return _sites_cache[key]
    env = dict(os.environ)
    env.update(SAN_ENV)
    scratch = os.path.join(BUILD, "run", "disc.%d" % os.getpid())
    p = subprocess.run([scen_bin, vchild, scratch, "--one", "traceall ; rlimit 64 ; " + script], stdout=subprocess.PIPE,
                       stderr=subprocess.DEVNULL, env=env)
    sites = []
    started = False
    for line in p.stdout.decode("utf-8", "replace").splitlines():
        try:
            d = json.loads(line)
        except ValueError:
            continue
        if "op" not in d:
            continue
        if d["op"] == "S":
            started = True
            continue
        if not started and d["op"] != "RN":
            continue
        for t in d.get("tr", []):
            fn, side, k = t[0], t[1], t[2]
            if side != 0 or fn in NOT_FAULTED or fn in ("fork", "pipe"):
                continue
            if d["op"] == "RN" and fn in ("fcntl", "malloc", "sigmask", "sigfillset", "strdup", "fileno", "close") :
                continue
            sites.append((side, fn, k))
    import shutil
    shutil.rmtree(scratch, ignore_errors=True)
    sites = sorted(set(sites))
    _sites_cache[key] = sites
    return sites


def variants(site):
    side, fn, k = site
    out = [(side, fn, k, PLAUSIBLE.get(fn, E.EIO))]
    if fn in INTERRUPTIBLE:
        out.append((side, fn, k, E.EINTR))
    if fn == "getrlimit":
        out += [(side, fn, k, v) for v in VALUE_FAULTS]
    return out


def interesting(sites):
    """Sites used for pairing: everything except the long tails of the closing loop,
    the signal-reset loop and the environment copy (first 3 of each kept)."""
    seen = {}
    out = []
    for s in sites:
        side, fn, k = s
        key = (side, fn)
        seen[key] = seen.get(key, 0) + 1
        long_tail = (side == 1 and fn in ("fcntl", "close", "sigaction")) or fn in ("malloc",)
        if long_tail and seen[key] > 3:
            continue
        out.append(s)
    return out


NATURAL = [
    ("missing", {"prog": "missing"}, -E.ENOENT),
    ("noexec", {"prog": "noexec"}, -E.EACCES),
    ("dir", {"prog": "dir"}, -E.EACCES),
    ("interp", {"prog": "interp"}, -E.ENOENT),
    ("longname", {"prog": "long"}, -E.ENAMETOOLONG),
    ("emptyname", {"prog": "empty"}, -E.ENOENT),
    ("wdmissing", {"wd": 2}, -E.ENOENT),
    ("wdfile", {"wd": 3}, -E.ENOTDIR),
    ("pathmissingdir", {"out": 7, "pathmode": "missing"}, -E.ENOENT),
    ("pathisdir", {"out": 7, "pathmode": "dir"}, -E.EISDIR),
    ("closedhandle", {"in": 5, "handlemode": "closed"}, -E.EBADF),
    ("argtoolong", {"bigarg": 200000}, -E.E2BIG),
]


def extra_meta(opts):
    m = {}
    if "_cmask" in opts:
        m["cmask"] = opts["_cmask"]
    if "_natural" in opts:
        m["natural"] = opts["_natural"]
        m["natf"] = 1
    return m


C03_SCENARIOS = ("default", "envextend", "envempty", "wd", "input", "wdrel", "closedstd")


def gen(prop, tier, seed):
    if prop == "C03":
        # launch fidelity under faults: single faults in the scenarios that say something about
        # argv / environment / working directory; whenever start still succeeds the child must have
        # got exactly what was asked for
        return [c for c in gen("C04", tier, seed)
                if c.meta["scenario"] in C03_SCENARIOS and len(c.meta["faults"]) == 1 and not c.meta.get("natural")]
    scen_bin = os.environ["VERIF_SCEN_ND"]
    vchild = os.environ["VERIF_VCHILD"]
    cases = []
    idx = 0
    for si, (name, opts) in enumerate(SCENARIOS):
        sites = discover_sites(scen_bin, vchild, name, opts)
        singles = []
        for s in sites:
            singles.extend(variants(s))
        for fi, f in enumerate(singles):
            r = rng_for(seed, "fault1", name, f)
            # two thirds: full tail with restart; the rest: destroy right after the (failed) start,
            # or a second start that fails early
            tail = [0, 0, 0, 1, 0, 2][fi % 6]
            script, mask = script_for(name, opts, [f], r, tail=tail)
            cases.append(Case("f%d" % idx, script, dict(extra_meta(opts), **{"scenario": name, "faults": [f], "mask": mask, "fork": opts.get("fork", 0), "tail": tail}),
                              "fault/%s/%s:%s:%d:%d" % ((name,) + f)))
            idx += 1
        # pairs
        inter = interesting(sites)
        pairs = []
        for i, a in enumerate(inter):
            for b in inter[i + 1:]:
                pairs.append((a, b))
        r = rng_for(seed, "pairs", name)
        if tier == "quick":
            r.shuffle(pairs)
            pairs = pairs[:130]
        else:
            r.shuffle(pairs)
            pairs = pairs[:2600]
        for a, b in pairs:
            r2 = rng_for(seed, "fault2", name, a, b)
            fa = r2.choice(variants(a))
            fb = r2.choice(variants(b))
            script, mask = script_for(name, opts, [fa, fb], r2)
            cases.append(Case("f%d" % idx, script, dict(extra_meta(opts), **{"scenario": name, "faults": [fa, fb], "mask": mask, "fork": opts.get("fork", 0)}),
                              "fault/%s/%s:%s:%d:%d+%s:%s:%d:%d" % ((name,) + fa + fb)))
            idx += 1
    if prop in ("C05", "C06"):
        for oname, oscript in OPS_SCENARIOS:
            sites = discover_op_sites(scen_bin, vchild, oname, oscript)
            for s in sites:
                for f in variants(s):
                    if f[1] == "waitpid" and f[3] != E.EINTR:
                        continue  # "somebody else reaped it" after a successful start is outside every property here
                    cases.append(Case("f%d" % idx, "rlimit 64 ; F %d %s %d %d ; %s" % (f + (oscript,)),
                                      {"scenario": "ops-" + oname, "faults": [f], "mask": 0, "ops": 1},
                                      "fault/ops/%s/%s:%s:%d:%d" % ((oname,) + f)))
                    idx += 1
    # natural causes (no injected fault) under a few option scenarios, and descriptor exhaustion
    for name, opts, exp in NATURAL:
        for rep in range(6 if tier == "quick" else 24):
            r = rng_for(seed, "nat", name, rep)
            o = dict(opts)
            if rep % 3 == 1:
                o["err"] = 1
            if rep % 3 == 2:
                o["nb"] = 1
            if rep >= 3 and rep % 2:
                script, mask = script_for("nat-" + name, o, [], r, tail=1 + (rep // 2) % 2)
                cases.append(Case("f%d" % idx, script, {"scenario": "nat-" + name, "faults": [], "mask": mask, "natural": exp, "tail": 1},
                                  "fault/nat/%s/%d/notail" % (name, rep)))
                idx += 1
                continue
            script, mask = script_for("nat-" + name, o, [], r)
            # the second start of the tail uses the same failing options: make it a good one
            good = start_tokens(0, {"ident": 1})
            script = script.replace(TAIL % start_tokens(0, dict(o, ident=1)), TAIL % good)
            cases.append(Case("f%d" % idx, script, {"scenario": "nat-" + name, "faults": [], "mask": mask, "natural": exp},
                              "fault/nat/%s/%d" % (name, rep % 3)))
            idx += 1
    # natural failure in the child combined with a fault on the reporting path
    REPORT_FAULTS = [(0, "waitpid", 0, E.EINTR), (0, "waitpid", 0, E.ECHILD), (0, "read", 0, E.EINTR),
                     (0, "read", 1, E.EINTR), (0, "read", 1, E.EIO), (0, "read", 0, E.EIO),
                     (1, "write", 0, E.EIO), (1, "write", 0, E.EINTR), (0, "close", 7, E.EIO)]
    for name, opts, exp in NATURAL[:8]:
        for f in REPORT_FAULTS:
            r = rng_for(seed, "natf", name, f)
            script, mask = script_for("natf-" + name, opts, [f], r)
            good = start_tokens(0, {"ident": 1})
            script = script.replace(TAIL % start_tokens(0, dict(opts, ident=1)), TAIL % good)
            cases.append(Case("f%d" % idx, script, {"scenario": "natf-" + name, "faults": [f], "mask": mask, "natural": exp, "natf": 1},
                              "fault/natf/%s/%s:%s:%d:%d" % ((name,) + f)))
            idx += 1
    for k in range(3, 22):
        for name, opts in (SCENARIOS[0], SCENARIOS[3], SCENARIOS[11]):
            r = rng_for(seed, "nofile", name, k)
            o = dict(opts, nofile=k)
            script, mask = script_for("nofile-" + name, o, [], r)
            good = start_tokens(0, dict(opts, ident=1))
            script = script.replace(TAIL % start_tokens(0, dict(o, ident=1)), TAIL % good)
            cases.append(Case("f%d" % idx, script, {"scenario": "nofile-" + name, "faults": [], "mask": mask, "nofile": k},
                              "fault/nofile/%s/%d" % (name, k)))
            idx += 1
    return cases


# ---------------------------------------------------------------- oracle
def fkey(faults, fired):
    """stable class of the fault plan: sides and functions (not indices)"""
    names = []
    for f in faults:
        side, fn, k, err = f
        tag = "%s:%s%s" % ("child" if side else "parent", fn, ":EINTR" if err == E.EINTR else "")
        if tag not in names:
            names.append(tag)
    return "+".join(names) if names else "nofault"


def judge(prop, case, log):
    vs = []
    m = case.meta
    faults = [tuple(f) for f in m["faults"]]
    obs = {"starts": 0, "failed_starts": 0, "successful_starts": 0, "faults_planned": len(faults),
           "faults_fired": 0, "restarts_checked": 0, "sites": set(), "natural_checked": 0,
           "kill_records": 0, "waitpid_records": 0, "caller_checks": 0, "child_sig_checks": 0,
           "ledger_checks": 0}

    def V(key, msg):
        vs.append(Violation(prop, "%s/fault/%s" % (prop, key), msg + " [scenario=%s faults=%s]" % (m["scenario"], faults)))

    if log.crashed():
        kind, lastop = crash_key(log)
        V("%s:after-%s@%s" % (kind, lastop, fkey(faults, None)), "runner died (%s): %s" % (log.end, log.stderr[:400]))
        return vs, obs, False
    if log.fin is None:
        V("no-fin", "no final record")
        return vs, obs, False
    fin = log.fin
    fired = [tuple(f[:4]) for f in fin.get("faults", []) if f[4]]
    obs["faults_fired"] = len(fired)
    for f in fired:
        obs["sites"].add("%s/%d/%s/%d" % (m["scenario"], f[0], f[1], f[2]))
    fk = fkey(faults, fired)
    sops = [o for o in log.ops if o["op"] == "S"]
    pops = [o for o in log.ops if o["op"] == "P"]
    hellos = [e for e in log.events if e.get("ev") == "hello"]
    idents = [e for e in log.events if e.get("ev") == "ident"]
    if not sops:
        return vs, obs, False
    s1 = sops[0]
    obs["starts"] = len(sops)
    hang = [o for o in log.ops if "hang" in o]

    if prop == "C04":
        # two report-path fault classes have one stable key each, whatever they are paired with
        canon = None
        if any(f[0] == 0 and f[1] == "read" and f[3] != E.EINTR for f in fired):
            canon = "parent:read:EIO+child-failure"
        elif any(f[0] == 1 and f[1] == "write" for f in fired):
            canon = "child:write+child-failure"
        if "hang" in s1:
            V("start-hangs@" + fk, "start never returns")
            return vs, obs, True
        r = s1["ret"]
        if r > 0 and "natural" in m:
            obs["natural_checked"] += 1
            V(("false-success@" + canon) if canon else ("success-for-unexecutable@" + fk), "start reported success (%d) for something that cannot run (expected %d)" % (r, m["natural"]))
        elif r > 0:
            obs["successful_starts"] += 1
            if s1.get("hello") != 1:
                V(("false-success@" + canon) if canon else ("success-but-program-not-executed@" + fk), "start returned %d (success) but the requested program never ran (no hello from pid)" % r)
            else:
                pid = s1["pid"]
                if pops and "hang" not in pops[0] and pops[0]["ret"] != pid:
                    V("pid-mismatch@" + fk, "reproc_pid=%s, the program that ran has pid %d" % (pops[0]["ret"], pid))
                if pid <= 0:
                    V("nonpositive-pid@" + fk, "pid %d" % pid)
                forks = [t[5] for t in s1["tr"] if t[0] == "fork" and t[1] == 0]
                if pid not in forks and not m.get("fork"):
                    V("pid-not-forked-by-library@" + fk, "pid %d, forks %s" % (pid, forks))
                if hellos and not m.get("fork"):
                    exe = bytes.fromhex(hellos[0]["exe"]).decode("utf-8", "replace")
                    if m["scenario"] in ("wdrel", "wdreldeep"):
                        if hellos[0].get("tag") != "right":
                            V("wrong-program-executed@" + fk, "the relative program name was resolved to %s (tag %s), not to the one in the parent's working directory" % (exe, hellos[0].get("tag")))
                    elif not exe.endswith("/vc"):
                        V("wrong-program-executed@" + fk, "executed %s" % exe)
        elif r < 0:
            obs["failed_starts"] += 1
            allowed = set(-VALUE_FAULTS.get(f[3], f[3]) for f in fired)
            if "natural" in m:
                obs["natural_checked"] += 1
                allowed = {m["natural"]} | (allowed if m.get("natf") else set())
            if "nofile" in m:
                obs["natural_checked"] += 1
                allowed = {-E.EMFILE}
            if not allowed:
                V("failure-without-cause@" + fk, "start failed with %d although no fault fired" % r)
            elif r not in allowed:
                V("wrong-cause:got%d@%s" % (r, fk), "start returned %d, the real cause was %s" % (r, sorted(allowed)))
            if s1.get("kids") != "none":
                V("child-left-behind@" + fk, "start failed with %d but a child process is left (%s)" % (r, s1.get("kids")))
            if pops and "hang" not in pops[0] and pops[0]["ret"] != EINVAL:
                V("pid-after-failed-start@" + fk, "reproc_pid returned %d after a failed start" % pops[0]["ret"])
            if not hang and fin and (fin.get("double_close") or fin.get("foreign_close")):
                # "left not started so it can be started again or destroyed": a descriptor number that the failed start has
                # already closed is still in the handle, and the destroy / second start closes it again
                V("stale-descriptor-in-handle-after-failed-start@" + fk,
                  "after the failed start a later call on the handle closed %d descriptor(s) a second time / %d it does not own"
                  % (fin.get("double_close", 0), fin.get("foreign_close", 0)))
            if len(sops) > 1 and m.get("tail", 0) == 0:
                obs["restarts_checked"] += 1
                s2 = sops[1]
                if "hang" in s2:
                    V("restart-hangs@" + fk, "second start never returns")
                elif s2["ret"] <= 0:
                    V("not-restartable:got%d@%s" % (s2["ret"], fk), "handle cannot be started again after a failed start (second start returned %d)" % s2["ret"])
                elif s2.get("hello") != 1:
                    V("restart-success-but-not-executed@" + fk, "second start reported success but no program ran")
        nontrivial = bool(fired) or "natural" in m or "nofile" in m
        return vs, obs, nontrivial

    if prop == "C03":
        obs["fault_launches_compared"] = 0
        if "hang" in s1 or s1["ret"] <= 0 or s1.get("hello") != 1 or not idents:
            return vs, obs, False
        idt = idents[0]
        opts = dict(SCENARIOS)[m["scenario"]]
        obs["fault_launches_compared"] = 1
        env = [bytes.fromhex(e).decode("utf-8", "replace") for e in idt.get("env", [])]
        nextra = opts.get("extra", 0)
        want = ["VX%d=v%d" % (i, i) for i in range(nextra)]
        if nextra and env[-nextra:] != want:
            V("env-extra-missing-after-fault@" + fk, "start succeeded but the child's environment ends with %s, expected the extra entries %s" % (env[-nextra:], want))
        if opts.get("env") == 1 and env != want:
            V("env-not-exactly-extra-after-fault@" + fk, "empty-behaviour environment has %d entries, expected exactly %s" % (len(env), want))
        if opts.get("env", 0) == 0:
            envset = [l for l in log.lines if "env_set" in l]
            if envset:
                parent = [bytes.fromhex(e).decode("utf-8", "replace") for e in envset[0]["env_set"]]
                if env != parent + want:
                    V("env-not-parent-plus-extra-after-fault@" + fk, "environment (%d entries) is not the parent's %d followed by the %d extra ones" % (len(env), len(parent), nextra))
        args = [bytes.fromhex(a).decode("utf-8", "replace") for a in idt.get("arg", [])[1:]]
        if "argvx" not in opts and args != ["a1"]:
            V("argv-differs-after-fault@" + fk, "the child's arguments are %s, expected ['a1']" % args)
        cwd = bytes.fromhex(idt["cwd"][0]).decode("utf-8", "replace") if idt.get("cwd") else None
        if opts.get("wd") == 1 and (cwd is None or not cwd.endswith("/h0/wd")):
            V("cwd-differs-after-fault@" + fk, "the child runs in %s, the requested working directory ends in /h0/wd" % cwd)
        return vs, obs, bool(fired)

    if prop == "C05":
        if hang:
            # a hang elsewhere is C04/C01 business; the ledger at that point is not meaningful
            return vs, obs, False
        obs["ledger_checks"] += 1
        if fin.get("double_close"):
            V("double-close@" + fk, "%d descriptor(s) closed twice" % fin["double_close"])
        if fin.get("foreign_close"):
            V("foreign-close@" + fk, "%d close() of descriptors the library did not open" % fin["foreign_close"])
        if fin.get("unknown_free"):
            V("unknown-free@" + fk, "%d free() of pointers the library did not allocate (or freed twice)" % fin["unknown_free"])
        if fin.get("owned_fds"):
            V("fd-leak@" + fk, "descriptors still owned by the library after destroy: %s" % fin["owned_fds"])
        if fin.get("live_allocs"):
            V("memory-leak@" + fk, "%d allocations never released" % fin["live_allocs"])
        snap0 = [l for l in log.lines if l.get("snap") == 0]
        if snap0:
            cmask = m.get("cmask", 0)
            before = sorted((f[0], f[1], f[2]) for f in snap0[0]["fds"] if not (f[0] < 3 and cmask & (1 << f[0])))
            after = sorted((f[0], f[1], f[2]) for f in fin["fds"])
            if before != after:
                V("fd-table-changed@" + fk, "descriptor table before %s, after %s" % (before, after))
        waited_ok = any(o["op"] in ("W", "ST", "RN") and "hang" not in o and o["ret"] >= 0 for o in log.ops)
        start_failed = "hang" not in s1 and s1["ret"] < 0 and len(sops) == 1
        if fin.get("kids") != "none" and (waited_ok or start_failed):
            V("process-left@" + fk, "a child is left although %s (%s)" % ("a wait succeeded" if waited_ok else "start failed", fin.get("kids")))
        for h, st, kind, isopen in fin.get("user_objs", []):
            if kind == "std" and m.get("cmask", 0) & (1 << st):
                continue   # closed by the scenario itself before the library was called
            if not isopen:
                V("user-object-closed:%s@%s" % (kind, fk), "the %s supplied for stream %d is no longer open" % (kind, st))
        return vs, obs, bool(fired) or not faults

    if prop == "C12":
        restoring_fault = any(f[0] == 0 and f[1] == "sigmask" and f[2] >= 1 for f in fired)
        for s in sops:
            if "hang" in s:
                continue
            obs["caller_checks"] += 1
            c = s.get("caller", {})
            which = "success" if s["ret"] > 0 else "failure"
            if c.get("mask") and c["mask"][0] != c["mask"][1] and not restoring_fault:
                V("caller-mask-changed:%s@%s" % (which, fk), "signal mask before %x, after %x" % (c["mask"][0], c["mask"][1]))
            if c.get("act"):
                V("caller-dispositions-changed@" + fk, "the sigaction table changed across start")
            if c.get("cwd"):
                V("caller-cwd-changed@" + fk, "the working directory changed across start")
            if c.get("env"):
                V("caller-environ-changed@" + fk, "environ changed across start")
        for e in idents:
            obs["child_sig_checks"] += 1
            sg = e.get("sig", {})
            try:
                blk = int(sg.get("SigBlk", "0"), 16)
                ign = int(sg.get("SigIgn", "0"), 16)
            except ValueError:
                continue
            if blk:
                V("child-mask-not-empty@" + fk, "the program started with blocked signals %x" % blk)
            if ign & 0x7fffffff:
                V("child-ignores-signals@" + fk, "the program started with ignored signals %x" % (ign & 0x7fffffff))
            if m.get("fork"):
                # the child side of a fork-mode start does not exec: handlers would survive too
                obs["fork_child_sig_checks"] = obs.get("fork_child_sig_checks", 0) + 1
                try:
                    cgt = int(sg.get("SigCgt", "0"), 16)
                except ValueError:
                    cgt = 0
                if cgt & 0x7fffffff:
                    V("fork-child-keeps-handlers@" + fk, "the child side of a fork-mode start still has handlers for signals %x" % (cgt & 0x7fffffff))
        return vs, obs, obs["caller_checks"] > 0

    if prop == "C06":
        for op in log.ops:
            for t in op.get("tr", []):
                if t[0] in ("kill", "waitpid"):
                    obs["kill_records" if t[0] == "kill" else "waitpid_records"] += 1
                    if t[7] & 4:
                        V("badtarget:%s:%s@%s" % (t[0], "nonpositive" if t[3] <= 0 else "not-live-child", fk),
                          "%s(%d) in op %s targets something that is not a live child of the library" % (t[0], t[3], op["op"]))
        if fin.get("badtarget") and not vs:
            V("badtarget:unattributed@" + fk, "bad kill/waitpid target")
        return vs, obs, obs["kill_records"] + obs["waitpid_records"] > 0
    return vs, obs, False


class FaultEngine:
    name = "fault"

    def cases(self, prop, tier, seed):
        return gen(prop, tier, seed)

    def judge(self, prop, case, log):
        return judge(prop, case, log)


ENGINE = FaultEngine()
