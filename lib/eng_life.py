"""Engine 'life' (virtual time): C01 exit status, C06 signal/reap targets, C07 stop
sequences, C15 destroy. Generators produce scripts for the scenario runner; the oracles
are reference models written from reproc.h and the property statements."""
import itertools

from core import (Case, Violation, crash_key, rng_for, EINVAL, ETIMEDOUT, INFINITE, DEADLINE,
                  NOOP, WAIT, TERMINATE, KILL)

TERM_SIGS = [1, 2, 3, 4, 5, 6, 7, 8, 9, 10, 11, 12, 13, 14, 15, 16, 24, 25, 26, 27, 29, 30, 31]
SIGTERM, SIGKILL = 15, 9


# ---------------------------------------------------------------- child model
class ChildModel:
    """What the scripted child does: ends by itself at exit_at (status), reacts to SIGTERM
    per `term`, to SIGKILL per `skill`. Times are virtual ms since case start."""

    def __init__(self, exit_at=None, exit_status=0, term="now", skill="now"):
        self.exit_at = exit_at
        self.exit_status = exit_status
        self.term = term
        self.skill = skill
        self.deliveries = []  # (time, status it causes)

    def end(self):
        """(time, status) of the earliest ending cause known so far, or None."""
        cands = []
        if self.exit_at is not None:
            cands.append((self.exit_at, self.exit_status))
        cands.extend(self.deliveries)
        return min(cands) if cands else None

    def ended_by(self, t):
        e = self.end()
        return e is not None and e[0] <= t

    def send(self, sig, t):
        if self.ended_by(t):
            return
        beh = self.skill if sig == SIGKILL else self.term
        if sig == SIGKILL:
            st = 128 + 9
        elif beh.startswith("h"):
            st = int(beh.split(":")[1])
        else:
            st = 128 + 15
        if beh == "ign":
            return
        d = 0
        if beh[0] in "dh":
            d = int(beh[1:].split(":")[0])
        self.deliveries.append((t + d, st))


HANG = "HANG"


RESUME_TOL = 3   # virtual ms a resumed (interrupted) wait may lose to clock granularity


def stop_model(child, actions, t, deadline_abs, reaped, kill_fail=None, intr=None):
    """Reference model of reproc_stop. Returns (ret, t_end, signals, now_reaped).
    signals: list of (time, sig, optional) - optional=True when the child was an unreaped
    zombie at that moment (sending or not sending are both accepted)."""
    signals = []
    acts = list(actions)
    if all(a == NOOP for a, _ in acts):
        acts = [(WAIT, DEADLINE), (TERMINATE, INFINITE), (NOOP, 0)]
    ret = None
    nsent = 0
    for a, to in acts:
        if a == NOOP:
            continue
        if a not in (WAIT, TERMINATE, KILL):
            return EINVAL, t, signals, reaped
        if a in (TERMINATE, KILL) and reaped is None:
            sig = SIGTERM if a == TERMINATE else SIGKILL
            if child.ended_by(t):
                signals.append((t, sig, True))
            else:
                if kill_fail is not None and nsent == kill_fail[0]:
                    signals.append((t, sig, False))
                    return -kill_fail[1], t, signals, reaped
                nsent += 1
                signals.append((t, sig, False))
                child.send(sig, t)
        # wait
        if reaped is not None:
            return reaped, t, signals, reaped
        eff = to
        if to == DEADLINE:
            eff = INFINITE if deadline_abs is None else max(0, deadline_abs - t)
        e = child.end()
        if intr is not None:
            # a signal interrupts the first wait of the request intr ms into it, unless the child
            # ends or the wait expires first: the request fails with EINTR there and then
            d, intr = intr, None
            ends_first = e is not None and e[0] <= t + d
            if not ends_first and eff != 0 and (eff == INFINITE or d < eff):
                return -4, t + d, signals, reaped
        if e is not None and (eff == INFINITE or e[0] <= t + eff):
            t = max(t, e[0])
            return e[1], t, signals, e[1]
        if eff == INFINITE:
            return HANG, t, signals, reaped
        t += eff
        ret = ETIMEDOUT
    return ret, t, signals, reaped


def fmt_stop(acts):
    return ":".join("%d:%d" % (a, t) for a, t in acts)


def stop_args(acts):
    return " ".join("%d %d" % (a, t) for a, t in acts)


# ---------------------------------------------------------------- generators
def child_tokens(m):
    t = "term=%s skill=%s" % (m["term"], m["skill"])
    return t


def child_event(m):
    if m.get("exit_at") is None:
        return ""
    if m.get("raise_sig"):
        return "E 0 %d K %d ; " % (m["exit_at"], m["raise_sig"])
    return "E 0 %d X %d ; " % (m["exit_at"], m["exit_code"])


def mk_model(m):
    st = (128 + m["raise_sig"]) if m.get("raise_sig") else m.get("exit_code", 0)
    return ChildModel(m.get("exit_at"), st, m["term"], m["skill"])


def gen_c01(tier, seed):
    n = 3000 if tier == "quick" else 60000
    cases = []
    for i in range(n):
        r = rng_for(seed, "c01", i)
        m = {"term": r.choice(["now", "now", "d13", "ign", "h13:3"]),
             "skill": r.choice(["now", "now", "d17"])}
        kind = i % 3 if i < 900 else r.randrange(3)
        if i < 256:
            kind, code = 0, i
        elif i < 256 + len(TERM_SIGS):
            kind, sig = 1, TERM_SIGS[i - 256]
        if kind == 0:
            m["exit_at"] = r.choice([5, 25, 45, 85, 125])
            m["exit_code"] = code if i < 256 else r.randrange(256)
        elif kind == 1:
            m["exit_at"] = r.choice([5, 25, 45, 85])
            m["raise_sig"] = sig if i < 256 + len(TERM_SIGS) else r.choice(TERM_SIGS)
        else:
            m["exit_at"] = None
        dl = r.choice([0, 0, 60, 30])
        ops = []
        nops = r.randint(1, 8)
        for _ in range(nops):
            k = r.randrange(10)
            if k < 3:
                ops.append("W 0 %d" % r.choice([0, 20, 40, 100]))
            elif k == 3:
                ops.append("W 0 %d" % (DEADLINE if dl else 0))
            elif k == 4:
                ops.append("T 0")
            elif k == 5:
                ops.append("K 0")
            elif k == 6:
                ops.append("Z %d" % r.choice([10, 30, 50]))
            elif k == 7:
                acts = [(r.choice([NOOP, WAIT, TERMINATE, KILL]), r.choice([0, 20, 40])) for _ in range(3)]
                ops.append("ST 0 " + stop_args(acts))
            elif k == 8:
                ops.append("P 0")
            else:
                # unbounded wait only when something is sure to end the child
                sure = m["exit_at"] is not None or any(o.startswith("K 0") for o in ops)
                ops.append("W 0 %d" % (INFINITE if sure else 40))
        m["dl"] = dl
        fault = ""
        if i >= 300 and i % 7 == 0:
            # an interrupted poll/waitpid inside wait must not lose the status for later calls
            fn = r.choice(["waitpid", "poll", "poll"])
            m["fault"] = (fn, r.randrange(3) if fn == "poll" else 0)
            fault = "FR %s %d 4 ; " % m["fault"]   # armed after start: counted from there
            ops.append("W 0 %d" % r.choice([0, 20]))
            if m["exit_at"] is not None:
                ops.append("Z 130")
                ops.append("W 0 0")
                ops.append("W 0 20")
        if i < 256 + len(TERM_SIGS):
            # the enumeration cases never signal the child and always collect the status
            ops = [o for o in ops if o[0] not in "TKS"]
            ops.append("W 0 -1")
            ops.append("W 0 0")
        daemon = ""
        if i >= 300 and i % 11 == 5:
            # daemon-style child: drops every inherited descriptor above 2 (the exit handle too) and
            # keeps running - the exit handle reads "closed" while the child is not waitable yet
            m["drops_fds_at"] = r.choice([3, 15, 35])
            daemon = "E 0 %d C 99 ; " % m["drops_fds_at"]
            ops.insert(r.randrange(len(ops) + 1), "Z %d" % (m["drops_fds_at"] + 2))
            ops.append("W 0 %d" % r.choice([0, 0, 20]))
        script = "N 0 ; S 0 %s dl=%d stop=3:-1:0:0:0:0 ; %s%s%s%s ; D 0" % (
            child_tokens(m), dl, fault, daemon if m.get("exit_at") is None or m.get("drops_fds_at", 999) < m["exit_at"] else "",
            child_event(m), " ; ".join(ops))
        sig = "c01/%s/%s/%s" % (kind, m.get("exit_code", m.get("raise_sig", "-")) if i < 300 else "r",
                                 "".join(o.split()[0][0] + o.split()[-1][-1] for o in ops))
        cases.append(Case("c01-%d" % i, script, m, sig))
    return cases


ACTS = [NOOP, WAIT, TERMINATE, KILL, 7]
TOS = [0, 40, INFINITE, DEADLINE]
CHILD_EXITS = [5, 45, 85, 125, None]
TERM_BEH = ["now", "d13", "ign", "h13:3"]


def gen_c07(tier, seed):
    cases = []
    combos = []
    if tier == "thorough":
        # complete action^3 x timeout^3 grid against a covering rotation of the other factors
        grid = list(itertools.product(ACTS, ACTS, ACTS, TOS, TOS, TOS))
        for gi, g in enumerate(grid):
            for rep in range(4):
                combos.append((g, gi * 4 + rep))
    else:
        r = rng_for(seed, "c07q")
        triples = list(itertools.product(ACTS, ACTS, ACTS))
        for gi, tr in enumerate(triples):
            for rep in range(3):
                combos.append((tr + tuple(r.choice(TOS) for _ in range(3)), gi * 3 + rep))
        while len(combos) < 6000:
            # the random part also uses other out-of-range action values
            combos.append((tuple(r.choice(ACTS[:4] * 4 + [7, -1, 4, 2147483647]) for _ in range(3)) + tuple(r.choice(TOS + TOS + [1, 2147483647]) for _ in range(3)),
                           len(combos)))
    for g, idx in combos:
        r = rng_for(seed, "c07", idx)
        acts = [(g[0], g[3]), (g[1], g[4]), (g[2], g[5])]
        # rotate the other factors so the whole product is covered by the grid x rotation
        m = {"exit_at": CHILD_EXITS[(idx // 1) % 5], "exit_code": r.randrange(256),
             "term": TERM_BEH[(idx // 5) % 4], "skill": ["now", "d17"][(idx // 20) % 2]}
        if r.random() < 0.3:
            m["exit_at"] = r.choice(CHILD_EXITS)
            m["term"] = r.choice(TERM_BEH)
        dlk = (idx // 40) % 3
        dl = [0, 60, 10][dlk]
        state = ["running", "running", "ended", "reaped"][(idx // 120) % 4]
        pre = []
        sleep = 20 if dlk == 2 else 0  # deadline already expired when stop is called
        if state in ("ended", "reaped"):
            m["exit_at"] = 5
            sleep = max(sleep, 10)
        if sleep:
            pre.append("Z %d" % sleep)
        if state == "reaped":
            pre.append("W 0 0")
        m.update({"dl": dl, "state": state, "acts": acts, "pre": pre})
        if state == "running" and (m["exit_at"] is None or m["exit_at"] > sleep) and r.random() < 0.05:
            m["kill_fail"] = (r.randrange(2), 1)  # k-th kill() fails with EPERM
        fault = ("FR kill %d 1 ; " % m["kill_fail"][0]) if "kill_fail" in m else ""
        if state == "running" and "kill_fail" not in m and r.random() < 0.08:
            m["intr"] = r.choice([5, 15, 35])
            fault = "FR poll 0 %d ; " % (40000 + m["intr"])
        # faults are armed right before the stop request and counted from there
        retry = ""
        if r.random() < 0.1:
            # a failed start with another deadline first: the stop after the second start must not see it
            retry = "S 0 prog=missing %s dl=%d stop=2:%d:0:0:0:0 ; " % (child_tokens(m), r.choice([10, 30, 60, 200]), r.choice([0, 20, 50]))
            m["retry"] = 1
        script = "N 0 ; %sS 0 %s dl=%d stop=3:-1:0:0:0:0 ; %s%s%s%sST 0 %s ; D 0" % (
            retry, child_tokens(m), dl, child_event(m), " ; ".join(pre), " ; " if pre else "", fault, stop_args(acts))
        sig = "c07/%s/%s/%s/%s/%s/%s" % (fmt_stop(acts), m["exit_at"], m["term"], m["skill"], dl, state)
        cases.append(Case("c07-%d" % idx, script, m, sig))
    return cases


def gen_c15(tier, seed):
    n = 3000 if tier == "quick" else 50000
    cases = []
    for i in range(n):
        r = rng_for(seed, "c15", i)
        state = ["running", "running", "running", "ended", "reaped", "notstarted", "failed", "fork", "retry"][i % 9]
        default_policy = r.random() < 0.5
        if default_policy:
            acts = [(NOOP, 0)] * 3
        else:
            acts = [(r.choice(ACTS[:4] + ([7] if r.random() < 0.15 else [])), r.choice(TOS)) for _ in range(3)]
        m = {"exit_at": r.choice(CHILD_EXITS), "exit_code": r.randrange(256),
             "term": r.choice(TERM_BEH), "skill": r.choice(["now", "d17"]),
             "dl": r.choice([0, 60, 10]), "state": state, "acts": acts, "default": default_policy}
        pre = []
        if m["dl"] == 10 and r.random() < 0.5:
            pre.append("Z 20")
        if state in ("ended", "reaped"):
            if m["exit_at"] is None:
                m["exit_at"] = 5
            pre.append("Z %d" % (m["exit_at"] + 5))
            if state == "reaped":
                pre.append("W 0 0")
        m["pre"] = pre
        opts = "%s dl=%d stop=%s" % (child_tokens(m), m["dl"], fmt_stop(acts))
        if state == "notstarted":
            script = "N 0 ; D 0"
        elif state == "failed":
            script = "N 0 ; S 0 prog=missing %s ; D 0" % opts
        elif state == "fork":
            script = "N 0 ; S 0 fork=1 %s ; %s%s%sD 0" % (opts, child_event(m), " ; ".join(pre), " ; " if pre else "")
        elif state == "retry":
            # a start that fails (with its own deadline and stop policy) must leave nothing behind in the handle:
            # the second start on the same handle, and the destroy after it, go by the second start's options only
            stale = [(r.choice(ACTS[:4]), r.choice(TOS)) for _ in range(3)]
            sdl = r.choice([10, 30, 60, 200])
            script = "N 0 ; S 0 prog=missing %s dl=%d stop=%s ; S 0 %s ; %s%s%sD 0" % (
                child_tokens(m), sdl, fmt_stop(stale), opts, child_event(m), " ; ".join(pre), " ; " if pre else "")
            m["stale"] = {"dl": sdl, "acts": stale}
        else:
            script = "N 0 ; S 0 %s ; %s%s%sD 0" % (opts, child_event(m), " ; ".join(pre), " ; " if pre else "")
        if r.random() < 0.1:
            script += " ; DN"
        sig = "c15/%s/%s/%s/%s/%s/%s" % (state, fmt_stop(acts), m["exit_at"], m["term"], m["dl"], bool(pre))
        cases.append(Case("c15-%d" % i, script, m, sig))
    return cases


def gen_c06(tier, seed):
    # union sample of the three generators: every kill/waitpid they provoke is monitored
    q = "quick" if tier == "quick" else "thorough"
    a = gen_c01(q, seed)
    b = gen_c07(q, seed)
    c = gen_c15(q, seed)
    if tier == "quick":
        return a[:1500] + b[:2000] + c[:1500]
    return a[:20000] + b[::8] + c[:20000]


# ---------------------------------------------------------------- oracles
def expected_status(how, st):
    return st if how == 1 else 128 + st


def lib_signals(op):
    """(vt, sig, flags) of kill records in an op's trace."""
    return [(t[8], t[4], t[7]) for t in op.get("tr", []) if t[0] == "kill"]


def judge_common(prop, case, log, vs):
    """Crash / sanitizer / parse failures. Returns True if the log is unusable."""
    if log.crashed():
        kind, lastop = crash_key(log)
        vs.append(Violation(prop, "%s/life/%s:after-%s" % (prop, kind, lastop),
                            "runner died (%s): %s" % (log.end, log.stderr[:300])))
        return True
    if log.fin is None:
        vs.append(Violation(prop, "%s/life/no-fin" % prop, "runner produced no final record"))
        return True
    return False


def check_targets(prop, log, vs):
    """C06: every kill/waitpid aims at a live, unreaped child of the library."""
    nk = nw = 0
    for op in log.ops:
        for t in op.get("tr", []):
            if t[0] in ("kill", "waitpid"):
                if t[0] == "kill":
                    nk += 1
                else:
                    nw += 1
                if t[7] & 4:
                    vs.append(Violation(prop, "%s/life/badtarget:%s:%s" % (prop, t[0], "nonpositive" if t[3] <= 0 else "not-live-child"),
                                        "%s(%d) in op %s#%d targets something that is not a live child of the library"
                                        % (t[0], t[3], op["op"], op["i"])))
    if log.fin and log.fin.get("badtarget", 0) and not vs:
        vs.append(Violation(prop, "%s/life/badtarget:unattributed" % prop, "bad kill/waitpid target outside any op"))
    return nk, nw


def judge_c01(case, log):
    vs = []
    obs = {"status_returns": 0, "stable_rechecks": 0, "signal_endings": 0, "exit_endings": 0,
           "hangs": 0, "codes_seen": set()}
    if judge_common("C01", case, log, vs):
        return vs, obs, False
    end = None
    status = None
    reaps = 0
    for item in log.lines:
        if item.get("ev") == "end" and item["h"] == 0:
            end = item
            continue
        if "op" not in item:
            continue
        op = item
        name = op["op"]
        if "hang" in op:
            obs["hangs"] += 1
            if end is not None and name in ("W", "ST", "D"):
                vs.append(Violation("C01", "C01/life/hang-after-child-ended:%s" % name,
                                    "%s never returns although the child ended at vt=%d" % (name, end["vt"])))
            break
        for t in op.get("tr", []):
            if t[0] == "waitpid" and t[5] > 0:
                reaps += 1
                if reaps > 1:
                    vs.append(Violation("C01", "C01/life/second-reap", "second successful waitpid in op %s" % name))
            elif t[0] == "waitpid" and status is not None:
                vs.append(Violation("C01", "C01/life/reap-attempt-after-status", "waitpid attempted after a status was returned"))
        if name in ("W", "ST") and op["ret"] >= 0:
            gt = [g for g in op["gt"] if g[0] == 0][0]
            if status is None:
                if end is None:
                    vs.append(Violation("C01", "C01/life/status-while-running:%s" % name,
                                        "%s returned %d but the kernel says the child has not ended" % (name, op["ret"])))
                    continue
                exp = expected_status(end["how"], end["st"])
                obs["status_returns"] += 1
                obs["codes_seen"].add(exp)
                if end["how"] == 1:
                    obs["exit_endings"] += 1
                else:
                    obs["signal_endings"] += 1
                if op["ret"] != exp:
                    vs.append(Violation("C01", "C01/life/wrong-status:%s" % ("exit" if end["how"] == 1 else "signal"),
                                        "%s returned %d, kernel says how=%d status=%d (expected %d)"
                                        % (name, op["ret"], end["how"], end["st"], exp)))
                if gt[1] != "reaped":
                    vs.append(Violation("C01", "C01/life/not-reaped-after-status",
                                        "status returned but the child is '%s' (zombie left)" % gt[1]))
                status = op["ret"]
            else:
                obs["stable_rechecks"] += 1
                if op["ret"] != status:
                    vs.append(Violation("C01", "C01/life/unstable-status", "%s returned %d after %d" % (name, op["ret"], status)))
                if op["t1"] != op["t0"]:
                    vs.append(Violation("C01", "C01/life/later-wait-not-immediate", "%s took %d ms after status was known" % (name, op["t1"] - op["t0"])))
                if any(t[0] in ("kill", "waitpid") for t in op.get("tr", [])):
                    vs.append(Violation("C01", "C01/life/later-wait-touches-os", "%s after the status was returned signalled or tried to reap again" % name))
        elif name in ("W", "ST") and status is not None:
            vs.append(Violation("C01", "C01/life/unstable-status", "%s returned %d after status %d" % (name, op["ret"], status)))
        elif name == "W" and op["ret"] == ETIMEDOUT and end is not None and end["vt"] <= op["t0"] \
                and not any(t[7] & 1 for t in op.get("tr", [])):
            obs["waits_after_end"] = obs.get("waits_after_end", 0) + 1
            vs.append(Violation("C01", "C01/life/status-lost:timeout-although-ended",
                                "wait returned ETIMEDOUT although the child ended at vt=%d (before the call at %d)" % (end["vt"], op["t0"])))
    if case.meta.get("drops_fds_at") is not None:
        obs["exit_handle_dropped_cases"] = 1
    if case.meta.get("fault"):
        obs["fault_cases"] = 1
        fired = [f for f in (log.fin.get("faults") or []) if f[4]]
        obs["faults_fired"] = len(fired)
    fin = log.fin
    gtf = [g for g in fin.get("gt", []) if g[0] == 0]
    if gtf and gtf[0][1] == "zomb" and not fin.get("hang") and obs["status_returns"] > 0:
        vs.append(Violation("C01", "C01/life/zombie-left-after-status", "a status was returned but the child is still a zombie at the end of the case"))
    nontrivial = obs["status_returns"] > 0
    return vs, obs, nontrivial


def replay_model(case, log, vs, prop):
    """Walk the log of a C07/C15 case with the reference model. Returns dict of observations."""
    m = case.meta
    child = mk_model(m)
    obs = {"stops_checked": 0, "signals_checked": 0, "expected_hangs": 0, "model_returns": set(),
           "timeouts": 0, "statuses": 0, "errors": 0}
    started = False
    start_t = 0
    reaped = None
    deadline_abs = None
    resumed_any = False
    ends = [e for e in log.events if e.get("ev") == "end" and e["h"] == 0]
    hello = any(e.get("ev") == "hello" for e in log.events)
    for op in log.ops:
        name = op["op"]
        if name == "S":
            started = op["ret"] > 0
            start_t = op["t1"]
            if m.get("dl"):
                deadline_abs = op["t1"] + m["dl"]
            if started and not hello and m.get("state") != "fork":
                return None
            continue
        if name == "W" and "hang" not in op:
            # pre-step wait(0) that reaps
            if op["ret"] >= 0:
                reaped = op["ret"]
            continue
        if name not in ("ST", "D"):
            continue
        if name == "D" and (not started or m.get("state") in ("notstarted", "failed")):
            # nothing to stop: no signals, no reaps, returns at once
            if op.get("tr") and any(t[0] in ("kill", "waitpid") for t in op["tr"]):
                vs.append(Violation(prop, "%s/life/destroy-touches-process:%s" % (prop, m.get("state")),
                                    "destroy of a %s handle called kill/waitpid" % m.get("state")))
            continue
        acts = m["acts"] if name == "ST" or prop == "C15" else [(KILL, INFINITE), (NOOP, 0), (NOOP, 0)]
        if name == "D" and prop == "C07":
            continue
        if name == "D" and reaped is not None:
            if any(t[0] in ("kill", "waitpid") for t in op.get("tr", [])):
                vs.append(Violation(prop, "%s/life/destroy-touches-process:reaped" % prop,
                                    "destroy of an already reaped handle called kill/waitpid"))
            continue
        t0 = op["t0"]
        intr = m.get("intr") if name == "ST" else None
        tol = 0
        if intr is not None and op.get("ret") != -4:
            # The contract does not say that a signal handler interrupting a wait ends the request: giving up with
            # EINTR there and then (what the pinned tree does) and resuming the wait for the time that remains are
            # both accepted. The resumed request is compared with the uninterrupted model; recomputing "what
            # remains" from a millisecond clock may cost a few ms, never gain any.
            intr = None
            tol = RESUME_TOL
        exp_ret, exp_t, exp_sigs, new_reaped = stop_model(child, acts, t0, deadline_abs, reaped,
                                                          m.get("kill_fail") if name == "ST" else None, intr)
        if name == "ST" and m.get("intr") is not None:
            fired = any(t[0] == "poll" and t[7] & 1 for t in op.get("tr", []))
            obs["interrupted_stops"] = obs.get("interrupted_stops", 0) + (1 if fired else 0)
            if tol and fired:
                obs["resumed_stops"] = obs.get("resumed_stops", 0) + 1
                resumed_any = True
        obs["stops_checked"] += 1
        key_ctx = "%s" % ("stop" if name == "ST" else "destroy")
        got_sigs = lib_signals(op)
        # zombie leniency: drop optional expected signals and signals logged at a zombie
        zomb_sig_times = [(e["vt"], e["sig"]) for e in log.events if e.get("ev") == "sig" and e.get("zomb")]
        got_req = [(vt, sg) for (vt, sg, fl) in got_sigs if (vt, sg) not in zomb_sig_times]
        exp_req = [(vt, sg) for (vt, sg, opt) in exp_sigs if not opt]
        obs["signals_checked"] += len(exp_req)
        if exp_ret == HANG:
            if "hang" in op:
                obs["expected_hangs"] += 1
            else:
                vs.append(Violation(prop, "%s/life/%s-returns-where-model-waits-forever" % (prop, key_ctx),
                                    "%s returned %s at vt=%s; the contract says it waits indefinitely here"
                                    % (name, op.get("ret"), op.get("t1"))))
            if got_req != exp_req:
                vs.append(Violation(prop, "%s/life/%s-signals-differ" % (prop, key_ctx),
                                    "signals sent %s, expected %s" % (got_req, exp_req)))
            break
        if "hang" in op:
            vs.append(Violation(prop, "%s/life/%s-hangs" % (prop, key_ctx),
                                "%s never returns; the model returns %s at vt=%d" % (name, exp_ret, exp_t)))
            break
        if tol and len(got_req) == len(exp_req) and all(g[1] == x[1] and x[0] <= g[0] <= x[0] + tol for g, x in zip(got_req, exp_req)):
            got_req = exp_req
        if got_req != exp_req:
            kinds = "extra" if len(got_req) > len(exp_req) else "missing" if len(got_req) < len(exp_req) else "different"
            vs.append(Violation(prop, "%s/life/%s-signals-%s" % (prop, key_ctx, kinds),
                                "signals sent %s, expected %s (acts=%s)" % (got_req, exp_req, acts)))
        if op["t1"] != exp_t and not (exp_t <= op["t1"] <= exp_t + tol):
            vs.append(Violation(prop, "%s/life/%s-time:%s" % (prop, key_ctx, "early" if op["t1"] < exp_t else "late"),
                                "%s returned at vt=%d, model says %d (acts=%s)" % (name, op["t1"], exp_t, acts)))
        if name == "ST":
            obs["model_returns"].add(exp_ret if exp_ret < 0 else "status")
            if exp_ret == ETIMEDOUT:
                obs["timeouts"] += 1
            elif exp_ret >= 0:
                obs["statuses"] += 1
            else:
                obs["errors"] += 1
            if op["ret"] != exp_ret:
                cls = ("status-for-running-child" if op["ret"] >= 0 and exp_ret < 0 else
                       "error-instead-of-status" if op["ret"] < 0 and exp_ret >= 0 else
                       "wrong-error" if op["ret"] < 0 else "wrong-status")
                vs.append(Violation(prop, "%s/life/stop-return:%s" % (prop, cls),
                                    "stop%s returned %d, model says %d" % (acts, op["ret"], exp_ret)))
        reaped = new_reaped
        if name == "D":
            gt = [g for g in op["gt"] if g[0] == 0]
            if m.get("default") and gt and gt[0][1] != "reaped":
                vs.append(Violation(prop, "%s/life/default-destroy-abandons-child" % prop,
                                    "default-policy destroy returned while the child is '%s'" % gt[0][1]))
    # validate the child model against the kernel's account
    e = child.end()
    if ends and e is not None and not (prop == "C07" and ends[0]["vt"] < e[0]):
        slack = RESUME_TOL if resumed_any else 0
        if not (e[0] <= ends[0]["vt"] <= e[0] + slack) or e[1] != expected_status(ends[0]["how"], ends[0]["st"]):
            # the model and the kernel disagree about the child itself: harness problem
            obs["model_kernel_disagree"] = 1
    return obs


def judge_c07(case, log):
    vs = []
    if judge_common("C07", case, log, vs):
        return vs, {}, False
    obs = replay_model(case, log, vs, "C07")
    if obs is None:
        return vs, {"no_hello": 1}, False
    return vs, obs, obs["stops_checked"] > 0


def judge_c15(case, log):
    vs = []
    m = case.meta
    if judge_common("C15", case, log, vs):
        return vs, {}, False
    obs = replay_model(case, log, vs, "C15")
    if obs is None:
        return vs, {"no_hello": 1}, False
    obs["destroys"] = 0
    obs["states"] = set()
    for op in log.ops:
        if op["op"] in ("D", "DN") and "hang" not in op:
            obs["destroys"] += 1
            obs["states"].add(m["state"])
            if op["ret"] != 0:
                vs.append(Violation("C15", "C15/life/destroy-returns-non-null", "destroy returned a non-null handle"))
    fin = log.fin
    if not fin.get("hang"):
        if fin.get("owned_fds"):
            vs.append(Violation("C15", "C15/life/destroy-leaks-fd:%s" % m["state"], "descriptors still owned after destroy: %s" % fin["owned_fds"]))
        if fin.get("live_allocs"):
            vs.append(Violation("C15", "C15/life/destroy-leaks-memory:%s" % m["state"], "%d allocations live after destroy" % fin["live_allocs"]))
        if fin.get("double_close") or fin.get("foreign_close"):
            vs.append(Violation("C15", "C15/life/destroy-bad-close:%s" % m["state"], "double/foreign close during the case"))
        gtf = [g for g in fin.get("gt", []) if g[0] == 0]
        if m.get("default") and m["state"] in ("running", "ended", "reaped") and gtf and gtf[0][1] not in ("reaped", "none"):
            # whatever the model believed along the way: the kernel's account after a default-policy destroy
            vs.append(Violation("C15", "C15/life/default-destroy-abandons-child",
                                "after a default-policy destroy the kernel says the child is '%s'" % gtf[0][1]))
        if m["state"] == "fork" and fin.get("inchild_done") != 1:
            vs.append(Violation("C15", "C15/life/fork-child-destroy", "destroy on the child side of a fork did not return null (%s)" % fin.get("inchild_done")))
    return vs, obs, obs["destroys"] > 0


def judge_c06(case, log):
    vs = []
    if judge_common("C06", case, log, vs):
        return vs, {}, False
    nk, nw = check_targets("C06", log, vs)
    obs = {"kill_records": nk, "waitpid_records": nw, "post_reap_signal_calls": 0}
    reaped = False
    for op in log.ops:
        if "hang" in op:
            break
        if op["op"] in ("W", "ST") and op["ret"] >= 0 and [g for g in op["gt"] if g[0] == 0][0][1] == "reaped":
            reaped = True
            continue
        if reaped and op["op"] in ("T", "K"):
            obs["post_reap_signal_calls"] += 1
            if op["ret"] != 0:
                vs.append(Violation("C06", "C06/life/terminate-after-reap-fails", "%s after reap returned %d" % (op["op"], op["ret"])))
            if any(t[0] == "kill" for t in op.get("tr", [])):
                vs.append(Violation("C06", "C06/life/signal-after-reap", "%s after reap sent a signal" % op["op"]))
    pid = None
    for op in log.ops:
        if op["op"] == "P" and op["ret"] >= 0:
            hello = [e for e in log.events if e.get("ev") == "hello"]
            if hello and op["ret"] != hello[0]["pid"]:
                vs.append(Violation("C06", "C06/life/pid-mismatch", "reproc_pid=%d, child says %d" % (op["ret"], hello[0]["pid"])))
    return vs, obs, nk + nw > 0


class LifeEngine:
    name = "life"

    def cases(self, prop, tier, seed):
        return {"C01": gen_c01, "C07": gen_c07, "C15": gen_c15, "C06": gen_c06}[prop](tier, seed)

    def judge(self, prop, case, log):
        return {"C01": judge_c01, "C07": judge_c07, "C15": judge_c15, "C06": judge_c06}[prop](case, log)


ENGINE = LifeEngine()
