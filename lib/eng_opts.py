"""C13 driver: runs the in-process option enumerator (src/opts.c) on 16 workers."""
import json
import os
import re
import subprocess
import time
from concurrent.futures import ThreadPoolExecutor

import build
import core


def run(prop, tier, seed, t0, replay):
    binp = build.build_opts("asan-nd")
    env = dict(os.environ)
    env.update(core.SAN_ENV)
    scratch = os.path.join(core.BUILD, "run")
    os.makedirs(scratch, exist_ok=True)
    env["VERIF_SCRATCH"] = scratch
    viols = []
    total = {"evaluations": 0, "nontrivial_sigs": set(), "obs": {}, "inconclusive": 0, "samples": []}
    nw = core.NWORKERS
    if replay:
        doc = json.load(open(replay))
        outs = []
        for c in doc["cases"][:20]:
            p = subprocess.run([binp, "--one", c["space"], str(c["index"])], stdout=subprocess.PIPE, stderr=subprocess.PIPE, env=env, text=True, timeout=600)
            outs.append((p.returncode, p.stdout, p.stderr))
    else:
        def work(w):
            rc_, out_, err_ = core.run_timed([binp, str(w), str(nw), tier, str(seed)], env, 240 if tier == "quick" else 3600)
            return rc_, out_, err_
        with ThreadPoolExecutor(nw) as ex:
            outs = list(ex.map(work, range(nw)))
    names = ["distinct_asserted", "evaluations", "rejects_confirmed", "accepts_confirmed", "dontcare", "violations",
             "effective_redirects_checked", "input_forms", "fork_forms", "distinct_accept_signatures", "distinct_reject_reasons"]
    obs = {n: 0 for n in names}
    distinct = 0
    for rc, out, err in outs:
        if rc == 124:
            obs["harness_timeouts"] = obs.get("harness_timeouts", 0) + 1
        elif rc not in (0, 1):
            kind = "crash"
            m = re.search(r"Assertion `([^']*)'", err)
            if m:
                kind = "assert:" + m.group(1).replace(" ", "")
            elif "AddressSanitizer" in err:
                kind = "asan"
            elif "runtime error" in err:
                kind = "ubsan"
            viols.append(("C13", "C13/opts/%s" % kind, "enumerator died (rc=%d): %s" % (rc, err[-400:]),
                          {"space": "redirect", "index": 0}, [err[-2000:]]))
        for line in out.splitlines():
            f = line.split("\t")
            if f[0] == "V":
                cls, space, idx, desc, msg = f[1], f[2], int(f[3]), f[4], f[5]
                reason = re.sub(r"[^a-zA-Z0-9]+", "-", msg.split(":")[0]).strip("-").lower()
                key = "C13/opts/%s:%s" % (cls, reason) if cls in ("not-rejected", "rejected-after-side-effects") else "C13/opts/%s" % cls
                viols.append(("C13", key, "%s [%s]" % (msg, desc), {"space": space, "index": idx, "desc": desc}, [line]))
            elif f[0] == "S":
                vals = [int(x) for x in f[1:]]
                for n, v in zip(names, vals):
                    obs[n] += v
            elif f[0] == "I" and len(total["samples"]) < 3:
                total["samples"].append(line)
    # distinct signatures are per worker maxima, not sums
    total["evaluations"] = obs["evaluations"]
    total["obs"] = obs
    total["nontrivial_sigs"] = set(range(obs["distinct_asserted"]))
    if not total["samples"]:
        p = subprocess.run([binp, "--one", "redirect", str(3 + 80 * 9 + 6400 * 33)], stdout=subprocess.PIPE, stderr=subprocess.PIPE, env=env, text=True, timeout=600)
        q = subprocess.run([binp, "--one", "redirect", "0"], stdout=subprocess.PIPE, stderr=subprocess.PIPE, env=env, text=True, timeout=600)
        total["samples"] = [p.stdout.strip(), q.stdout.strip()]
    rule = ("per stream {type 0-7, 8, -1} x handle x file x path (80 assignments), three streams, four shorthands: 8 192 000 "
            "redirect assignments - thorough enumerates them all, quick every single-stream assignment under all shorthand masks "
            "(3 840) plus 300 000 seeded samples; plus start-up input forms x fork/argv forms over a sample of redirect sets. "
            "fork() is made to fail with a reserved errno so nothing is spawned; reject = EINVAL with no pipe/open/fileno/fork "
            "call in the trace, accept = set-up trace shows the documented effective redirect per stream; distinct = distinct "
            "assignments on which the rule table asserts a verdict (out-of-range types and the one undecided shorthand pair are don't-care)")
    mo = None if replay else {"rejects_confirmed": 100000, "accepts_confirmed": 500, "effective_redirects_checked": 500,
                              "distinct_reject_reasons": 10, "input_forms": 1000}
    return core.conclude(prop, tier, seed, "exploration", total, viols, t0, rule, min_obs=mo,
                         assumptions=["the rule table is a transcription of reproc.h:114-158, 204-241, 265-290 and of the six reject reasons in the property statement",
                                      "HANDLE and STDOUT leave no libc call in the set-up; their resolution is checked by C10's engine with a real child"],
                         exhaustive=tier == "thorough",
                         extra_cov={"space_size": 8192000})
