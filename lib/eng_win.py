"""C18 driver: Windows command-line / environment-block code executed on Linux (src/win.c)."""
import json
import os
import re
import subprocess
from concurrent.futures import ThreadPoolExecutor

import build
import core


def run(prop, tier, seed, t0, replay):
    binp = build.build_win("asan")
    env = dict(os.environ)
    env.update(core.SAN_ENV)
    nw = core.NWORKERS
    viols = []
    if replay:
        doc = json.load(open(replay))
        outs = []
        for c in doc["cases"][:20]:
            p = subprocess.run([binp, "--one", c["argv_hex"]], stdout=subprocess.PIPE, stderr=subprocess.PIPE, env=env, text=True, errors="replace", timeout=600)
            outs.append((p.returncode, p.stdout, p.stderr))
    else:
        def work(w):
            rc_, out_, err_ = core.run_timed([binp, str(w), str(nw), tier, str(seed)], env, 240 if tier == "quick" else 3600)
            return rc_, out_, err_
        with ThreadPoolExecutor(nw) as ex:
            outs = list(ex.map(work, range(nw)))
    names = ["cmdline_cases", "env_cases", "violations", "alloc_failure_runs", "alloc_failures_fired", "arguments_compared",
             "env_entries_compared", "exhaustive_strings"]
    obs = {n: 0 for n in names}
    samples = []
    for rc, out, err in outs:
        if rc == 124:
            obs["harness_timeouts"] = obs.get("harness_timeouts", 0) + 1
        elif rc not in (0, 1):
            kind = "crash"
            m = re.search(r"Assertion `([^']*)'", err)
            if "AddressSanitizer" in err:
                m2 = re.search(r"AddressSanitizer: (\S+)", err)
                kind = "asan-" + (m2.group(1) if m2 else "error")
                m3 = re.search(r"#\d+ 0x[0-9a-f]+ in (\w+) .*(process|utf)\.windows\.c", err)
                if m3:
                    kind += ":" + m3.group(1)
            elif m:
                kind = "assert:" + m.group(1).replace(" ", "")
            elif "runtime error" in err:
                kind = "ubsan"
            viols.append(("C18", "C18/win/%s" % kind, "engine died (rc=%d): %s" % (rc, err[-600:]), {"argv_hex": ""}, [err[-3000:]]))
        for line in out.splitlines():
            f = line.split("\t")
            if f[0] == "V" and len(f) >= 4:
                viols.append(("C18", "C18/win/%s" % f[1], "%s [argv(hex)=%s]" % (f[3], f[2][:200]), {"argv_hex": f[2]}, [line[:500]]))
            elif f[0] == "S":
                for n, v in zip(names, [int(x) for x in f[1:]]):
                    obs[n] += v
            elif f[0] == "I":
                samples.append(line)
    total = {"evaluations": obs["cmdline_cases"] + obs["env_cases"] + obs["alloc_failure_runs"], "obs": obs, "inconclusive": 0,
             "nontrivial_sigs": set(range(obs["exhaustive_strings"])),
             "samples": samples[:3] or [
                 {"argv": ["prog.exe", "a \\\"b\\\\"], "expected": "decoding the captured command line by the documented rules returns the same strings"},
                 {"env": {"parent": ["P0=x"], "extra": ["X0=y"], "behavior": "extend"}, "expected_block": "P0=x\\0X0=y\\0\\0"}]}
    rule = ("every string of length <= 5 over {space, tab, LF, VT, quote, backslash, a, b} as a single argument (37 449) and every pair "
            "of strings of length <= 2 (5 329) are enumerated in both tiers; plus random vectors of 1-20 arguments up to 300 bytes "
            "including multi-byte UTF-8 (quick 40 000, thorough 2 000 000), environment blocks from 0-100 parent and 0-50 extra "
            "entries under both behaviours, and allocation failure at every allocation index; distinct_nontrivial counts the "
            "exhaustively enumerated strings/pairs only (random cases are not deduplicated)")
    mo = None if replay else {"cmdline_cases": 60000, "exhaustive_strings": 42778, "env_cases": 5000, "alloc_failures_fired": 1000,
                              "arguments_compared": 200000}
    return core.conclude(prop, tier, seed, "exploration", total, viols, t0, rule, min_obs=mo,
                         assumptions=["the Win32 functions are stubs (stubs/windows.h, src/win.c): CreateProcessW copies what it is handed, "
                                      "MultiByteToWideChar is a strict UTF-8 decoder storing one UTF-16 unit per wchar_t",
                                      "the decoder implements the documented rules: 2n backslashes + quote -> n backslashes and a toggle, 2n+1 -> n "
                                      "backslashes and a literal quote, other backslashes literal, unquoted blanks separate",
                                      "argv[0] is a program name without quote or trailing backslash (Windows parses argv[0] by different rules)",
                                      "the real Windows back-end (pipes, handles, process creation) is not executed"],
                         extra_cov={"exhaustive_part": "strings <= 5 and pairs <= 2 over the 8-character alphabet"})
