#!/usr/bin/env python3
"""Regenerate MANIFEST.json from the registry (keeps it valid at all times)."""
import json
import os
import sys

VERIF = os.path.dirname(os.path.dirname(os.path.abspath(__file__)))
sys.path.insert(0, os.path.join(VERIF, "lib"))
import registry  # noqa: E402

NA_REASONS = getattr(registry, "NOT_APPLICABLE", {})

props = [json.loads(l) for l in open(os.path.join(VERIF, "properties.jsonl"))]
checks = []
na = []
engines = {}
for p in props:
    pid = p["id"]
    if pid in registry.CHECKS and pid in registry.MANIFEST_TEXT:
        eng, tech, text, note, ref = registry.MANIFEST_TEXT[pid]
        level = registry.CHECKS[pid]["level"]
        checks.append({
            "property_id": pid,
            "quick_cmd": "bin/check %s --tier quick" % pid,
            "thorough_cmd": "bin/check %s --tier thorough" % pid,
            "evidence_file": "/verif/evidence/%s.json" % pid,
            "replay_cmd_template": "bin/check %s --replay {path}" % pid,
            "engine": eng,
            "level_claimed": {"category": level, "text": text, "design_ref": ref},
            "level_note": note,
            "technique": tech,
        })
        engines.setdefault(eng, []).append(pid)
    else:
        na.append({"property_id": pid,
                   "reason": NA_REASONS.get(pid, "check not built yet (work in progress, see DESIGN.md)")})

m = {
    "version": 1,
    "setup_cmd": "python3 lib/build.py asan",
    "hooks": {
        "guard": "REPROC_VERIF",
        "enable": "none needed: instrumentation is link-time interposition (ld -r --wrap on the library objects "
                  "compiled from /repo's working tree) plus helper children; no source hooks exist",
        "baseline_off_cmd": "cmake --build /repo/_build && ctest --test-dir /repo/_build -j8 --timeout 900",
        "source_commits": [],
        "add_only": True,
    },
    "engines": [{"name": e, "path": "lib/" + registry.ENGINE_PATHS.get(e, "eng_%s.py" % e),
                 "serves_properties": sorted(ps),
                 "kind_free_text": registry.ENGINE_KINDS.get(e, "")} for e, ps in sorted(engines.items())],
    "checks": checks,
    "notes": "Runtime monitoring only: every verdict is an oracle observing executions of the library compiled from "
             "/repo's working tree. Known findings: /verif/known_findings.txt. See DESIGN.md.",
    "not_applicable": na,
}
json.dump(m, open(os.path.join(VERIF, "MANIFEST.json"), "w"), indent=1)
print("claimed:", [c["property_id"] for c in checks])
print("not claimed:", [n["property_id"] for n in na])
