"""Helpers shared by the scenario-based engines: option dicts -> runner script tokens."""

KEYS = ("prog", "wd", "env", "extra", "in", "out", "err", "rparent", "rdiscard", "stop", "dl",
        "input", "nb", "fork", "term", "skill", "ignpipe", "argvnull", "text", "runex",
        "ident", "rfile", "rpath", "nofile", "pathmode", "handlemode", "argvx", "envx", "wdx", "progx",
        "hin", "hout", "herr", "hlow", "inchild", "hinfd", "houtfd", "herrfd", "bigarg", "foutstd", "ferrstd", "rootrel")


def start_tokens(h, opts):
    toks = ["S", str(h)]
    for k in KEYS:
        if k in opts and opts[k] is not None:
            toks.append("%s=%s" % (k, opts[k]))
    return " ".join(toks)


def stop_str(acts):
    return ":".join("%d:%d" % (a, t) for a, t in acts)


KILL_POLICY = "3:-1:0:0:0:0"  # destroy never hangs: kill, wait forever
