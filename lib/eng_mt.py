"""C20 driver: thread-safety under ThreadSanitizer with injected delays (src/mt.c)."""
import glob
import json
import os
import re
import shutil
import subprocess
from concurrent.futures import ThreadPoolExecutor

import build
import core

REPO = build.REPO


def parse_tsan(text):
    """Split a TSan log into reports; classify each by where the racing accesses are."""
    reports = [r for r in text.split("==================") if "WARNING: ThreadSanitizer" in r]
    lib, harness = [], []
    for r in reports:
        # first frame with a source path in each stack = where the access really is
        stacks = re.split(r"\n\s*\n", r)
        access_files = []
        for st in stacks:
            if not re.search(r"(Write|Read|Previous write|Previous read|Atomic)", st.split("\n")[0] if st.strip() else ""):
                head = st.strip().split("\n")[0] if st.strip() else ""
                if not re.search(r"(rite of size|ead of size)", head):
                    continue
            for line in st.split("\n"):
                m = re.search(r"#\d+ (\S+) (/\S+?):(\d+)", line)
                if m and "libsanitizer" not in m.group(2):
                    access_files.append((m.group(1), m.group(2)))
                    break
        in_lib = [f for f in access_files if "/reproc/src/" in f[1] or "/reproc++/" in f[1]]
        kind = re.search(r"ThreadSanitizer: ([^(\n]+)", r)
        kind = kind.group(1).strip() if kind else "report"
        if in_lib:
            key = "%s:%s" % (kind.replace(" ", "-"), "+".join(sorted(set(f[0] for f in in_lib))))
            lib.append((key, r[:3000]))
        else:
            harness.append(r[:1500])
    return lib, harness


def run(prop, tier, seed, t0, replay):
    vchild = build.build_vchild()
    binp = build.build_mt("tsan")
    reps = 40 if tier == "quick" else 600
    nproc = 4 if tier == "quick" else 8
    per = reps // nproc
    scratch_root = os.path.join(core.BUILD, "run", "mt.%d" % os.getpid())
    os.makedirs(scratch_root, exist_ok=True)
    env = dict(os.environ)

    def work(i):
        sc = os.path.join(scratch_root, "p%d" % i)
        e = dict(env)
        e["TSAN_OPTIONS"] = "halt_on_error=0:report_signal_unsafe=0:log_path=%s/tsan" % sc
        os.makedirs(sc, exist_ok=True)
        rc_, out_, err_ = core.run_timed([binp, vchild, os.path.join(sc, "w"), str(per), str(seed * 1000 + i), "16"], e,
                                        900 if tier == "quick" else 3600)
        logs = ""
        for f in glob.glob(os.path.join(sc, "tsan*")):
            logs += open(f, errors="replace").read()
        return rc_, out_, err_ + logs
    with ThreadPoolExecutor(nproc) as ex:
        outs = list(ex.map(work, range(nproc)))
    # Windows half, as far as it can run here: process_start of process.windows.c on stubbed Win32 functions
    # from four threads at once, each with its own handles (ThreadSanitizer build of src/win.c --mt)
    wrc, wout, werr = 0, "", ""
    try:
        winbin = build.build_win("tsan")
    except build.Inconclusive as e:
        winbin = None
        print("note: Windows multi-thread pass not built: %s" % str(e).splitlines()[-1][:200])
    if winbin:
        wsc = os.path.join(scratch_root, "win")
        os.makedirs(wsc, exist_ok=True)
        we = dict(env)
        we["TSAN_OPTIONS"] = "halt_on_error=0:log_path=%s/tsan" % wsc
        wrc, wout, werr = core.run_timed([winbin, "--mt", "0", "1", str(3000 if tier == "quick" else 60000), str(seed)], we, 900)
        for f in glob.glob(os.path.join(wsc, "tsan*")):
            werr += open(f, errors="replace").read()
    win_starts = 0
    shutil.rmtree(scratch_root, ignore_errors=True)
    names = ["children", "bytes_verified", "violations", "strerror_calls", "descriptor_tables_ok", "eof_and_length_ok", "concurrent_starts"]
    obs = {n: 0 for n in names}
    obs.update({"tsan_reports_in_library": 0, "tsan_reports_in_harness": 0, "watchdogs": 0})
    hashes = set()
    viols = []
    inconclusive = 0
    for rc, out, err in outs:
        lib, harness = parse_tsan(err)
        obs["tsan_reports_in_library"] += len(lib)
        obs["tsan_reports_in_harness"] += len(harness)
        for h in harness[:2]:
            print("note: ThreadSanitizer report outside library code (harness):\n" + h)
        seen = set()
        for key, text in lib:
            if key in seen:
                continue
            seen.add(key)
            viols.append(("C20", "C20/mt/tsan:%s" % key, "ThreadSanitizer report with the racing access in library code", {"seed": seed, "tsan": text[:2000]}, text.splitlines()[:60]))
        for line in out.splitlines():
            f = line.split("\t")
            if f[0] == "V" and len(f) >= 4:
                viols.append(("C20", "C20/mt/%s" % f[1], "%s [%s]" % (f[3], f[2]), {"seed": seed, "where": f[2]}, [line[:400]]))
            elif f[0] == "S":
                for n, v in zip(names, [int(x) for x in f[1:]]):
                    obs[n] += v
            elif f[0] == "H":
                hashes.add(f[1])
            elif f[0] == "W":
                obs["watchdogs"] += 1
        if rc == 124:
            obs["harness_timeouts"] = obs.get("harness_timeouts", 0) + 1
        elif rc not in (0, 1, 3) and not lib:
            if "ThreadSanitizer" not in err:
                viols.append(("C20", "C20/mt/crash", "engine died rc=%d: %s" % (rc, err[-500:]), {"seed": seed}, [err[-2000:]]))
    wlib, wharness = parse_tsan(werr)
    obs["tsan_reports_in_library"] += len(wlib)
    obs["tsan_reports_in_harness"] += len(wharness)
    for h in wharness[:2]:
        print("note: ThreadSanitizer report outside library code (Windows stub harness):\n" + h)
    seen = set()
    for key, text in wlib:
        if key not in seen:
            seen.add(key)
            viols.append(("C20", "C20/mt/tsan:windows:%s" % key, "ThreadSanitizer report with the racing access in the Windows back-end (run on stubs)", {"seed": seed, "tsan": text[:2000]}, text.splitlines()[:60]))
    for line in wout.splitlines():
        f = line.split("\t")
        if f[0] == "V" and len(f) >= 4:
            viols.append(("C20", "C20/mt/%s" % f[1], "%s [%s, Windows source on stubs]" % (f[3], f[2]), {"seed": seed, "where": f[2]}, [line[:400]]))
        elif f[0] == "H":
            win_starts = int(f[1])
    obs["windows_concurrent_starts_on_stubs"] = win_starts
    if wrc == 124:
        obs["harness_timeouts"] = obs.get("harness_timeouts", 0) + 1
    elif wrc not in (0, 1) and not wlib and "ThreadSanitizer" not in werr:
        viols.append(("C20", "C20/mt/crash:windows", "Windows stub engine died rc=%d: %s" % (wrc, werr[-500:]), {"seed": seed}, [werr[-2000:]]))
    obs["distinct_interleavings"] = len(hashes)
    total = {"evaluations": obs["children"], "obs": obs, "inconclusive": 0, "nontrivial_sigs": hashes,
             "samples": [{"scenario": "0: reader thread + writer thread on one child (stdin up to 1 MiB echoed to stdout), 2-8 children at once",
                          "check": "stdout = child's own position-coded bytes followed by the echo of what this handle wrote; exit code unique per child"},
                         {"scenario": "3: as 1/2 but the output is collected with reproc_drain and verifying sinks"},
                         {"scenario": "1/2: 2-16 threads each doing new/start/write/close/read out/read err/wait/destroy, starts released by a barrier",
                          "check": "child's descriptor table as found at exec = {0,1,2, one pipe}; EOF on its own stdin while siblings are alive"}]}
    rule = ("repetitions of three threaded scenarios under ThreadSanitizer with seeded sched_yield/usleep(0-200us) delays injected in the "
            "interposed pipe/fcntl/fork/read/write/close/poll calls (between the library's critical steps); every thread has its own signal mask and compares it after each barrier-released start; a TSan report counts when the "
            "racing access is in library source; non-trivial/distinct = distinct hashes of the cross-thread order of the first 400 "
            "interposed calls of a repetition (distinct interleavings actually observed)")
    extra_inconclusive = []
    if obs["tsan_reports_in_harness"]:
        extra_inconclusive.append("%d ThreadSanitizer reports inside the harness itself" % obs["tsan_reports_in_harness"])
    if obs["watchdogs"]:
        extra_inconclusive.append("%d repetitions hit the watchdog without evidence of cross-talk" % obs["watchdogs"])
    mo = {"children": 150 if tier == "quick" else 3000, "distinct_interleavings": 20 if tier == "quick" else 300,
          "descriptor_tables_ok": 150 if tier == "quick" else 3000, "strerror_calls": 1000000,
          "windows_concurrent_starts_on_stubs": 10000}
    rc = core.conclude(prop, tier, seed, "exploration", total, viols, t0, rule, min_obs=None if replay else mo,
                       assumptions=["ThreadSanitizer only sees synchronisation it intercepts; the helper children are uninstrumented separate processes",
                                    "a repetition that does not finish is a violation only with /proc evidence that a sibling holds the child's stdin pipe; otherwise inconclusive"])
    if rc == 0 and extra_inconclusive:
        print("INCONCLUSIVE property=C20: " + "; ".join(extra_inconclusive))
        return 2
    return rc
