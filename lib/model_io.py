"""Ground-truth stream/process state per handle, reconstructed from the runner's log
(child acks, kernel end events, API results). Used by the poll and io oracles."""
import copy

from core import EPIPE, EAGAIN, R_PIPE, R_STDOUT, R_DEFAULT, R_PARENT, R_DISCARD, EV_IN, EV_OUT, EV_ERR, EV_EXIT


def effective_types(opts):
    """Documented resolution of the redirect options used by the generators
    (only type + parent/discard shorthands are used by scen cases)."""
    res = []
    for s, key in enumerate(("in", "out", "err")):
        ty = opts.get(key, R_DEFAULT)
        if ty == R_DEFAULT:
            if opts.get("rparent") or (opts.get("runex") == "plain" and not (
                    opts.get("rdiscard") or opts.get("rfile") or opts.get("rpath"))):
                ty = R_PARENT   # reproc_run's own default
            elif opts.get("rdiscard"):
                ty = R_DISCARD
            else:
                ty = R_PARENT if s == 2 else R_PIPE
        res.append(ty)
    return res


class HState:
    def __init__(self, opts):
        self.opts = opts
        self.rtype = effective_types(opts)
        self.started = False
        self.reaped = False
        self.destroyed = False
        self.child_alive = False
        self.end_vt = None
        self.end_status = None
        self.par_open = {0: False, 1: False, 2: False}
        self.pipe_bytes = {1: 0, 2: 0}
        self.written = {1: 0, 2: 0}     # bytes that entered parent-visible pipe p
        self.received = {1: 0, 2: 0}    # bytes the parent got out of pipe p
        self.child_fd_open = {0: True, 1: True, 2: True}
        self.stdin_occ = 0
        self.stdin_full = False
        self.stdin_accepted = 0
        self.stdin_child_read = 0
        self.stdin_child_eof = False
        self.stdin_bad = -1
        self.deadline_abs = None
        self.epipe_seen = {0: False, 1: False, 2: False}

    def dest_pipe(self, fd):
        if fd == 1:
            return 1 if self.rtype[1] == R_PIPE else 0
        if fd == 2:
            if self.rtype[2] == R_PIPE:
                return 2
            if self.rtype[2] == R_STDOUT and self.rtype[1] == R_PIPE:
                return 1
        return 0

    def holders(self, p):
        """child descriptors still referring to the write end of parent-visible pipe p"""
        if not self.child_alive:
            return 0
        n = 0
        for fd in (1, 2):
            if self.child_fd_open[fd] and self.dest_pipe(fd) == p:
                n += 1
        return n

    def on_start(self, op):
        self.started = True
        self.child_alive = True
        for s in range(3):
            self.par_open[s] = self.rtype[s] == R_PIPE
        dl = self.opts.get("dl", 0)
        if dl:
            self.deadline_abs = op["t1"] + dl
        inp = self.opts.get("input", -1)
        if inp is not None and inp >= 0:
            self.par_open[0] = False
            self.stdin_occ = inp
            self.stdin_accepted = inp

    def pollable(self, interests):
        if self.destroyed or not self.started:
            return False
        if interests & EV_IN and self.par_open[0]:
            return True
        if interests & EV_OUT and self.par_open[1]:
            return True
        if interests & EV_ERR and self.par_open[2]:
            return True
        if interests & EV_EXIT and not self.reaped:
            return True
        return False

    def expected_bits(self, interests):
        """(must, may): bits that have to be reported / may additionally be reported."""
        must = may = 0
        if self.destroyed or not self.started:
            return 0, 0
        if interests & EV_IN and self.par_open[0]:
            if not self.child_alive or not self.child_fd_open[0]:
                must |= EV_IN
            elif self.stdin_full:
                pass
            elif self.stdin_occ <= 4096:
                must |= EV_IN
            else:
                may |= EV_IN
        for p, bit in ((1, EV_OUT), (2, EV_ERR)):
            if interests & bit and self.par_open[p]:
                if self.pipe_bytes[p] > 0 or self.holders(p) == 0:
                    must |= bit
        if interests & EV_EXIT and not self.reaped and not self.child_alive:
            must |= EV_EXIT
        return must, may


class World:
    """All handles of a case; feed it log lines in order."""

    def __init__(self, handle_opts):
        self.h = {int(k): HState(v) for k, v in handle_opts.items()}

    def clone(self):
        return copy.deepcopy(self)

    def event(self, e):
        hs = self.h.get(e.get("h"))
        if hs is None:
            return
        k = e["ev"]
        if k == "cw":
            p = hs.dest_pipe(e["fd"])
            if p:
                hs.pipe_bytes[p] += e["n"]
                hs.written[p] += e["n"]
        elif k == "cc":
            if 0 <= e["fd"] <= 2:
                hs.child_fd_open[e["fd"]] = False
        elif k == "cr":
            hs.stdin_occ -= e["n"]
            hs.stdin_child_read += e["n"]
            if e["n"] > 0:
                hs.stdin_full = False
            if e.get("eof"):
                hs.stdin_child_eof = True
            if e.get("bad", -1) >= 0 and hs.stdin_bad < 0:
                hs.stdin_bad = e["bad"]
        elif k == "end":
            hs.child_alive = False
            hs.end_vt = e["vt"]
            hs.end_status = e["st"] if e["how"] == 1 else 128 + e["st"]

    def op(self, o):
        """apply the effects of a completed API op"""
        hs = self.h.get(o.get("h"))
        name = o["op"]
        if "hang" in o:
            return
        if name == "S" and hs is not None:
            if o["ret"] > 0 and not hs.started:
                hs.on_start(o)
        elif name == "RNSTART" and hs is not None:
            hs.on_start(o)
        elif name == "RD" and hs is not None:
            st = o["st"]
            if st in (1, 2):
                if o["ret"] > 0:
                    hs.pipe_bytes[st] -= o["ret"]
                    hs.received[st] += o["ret"]
                elif o["ret"] == EPIPE:
                    hs.par_open[st] = False
                    hs.epipe_seen[st] = True
        elif name == "WR" and hs is not None:
            if o["ret"] > 0:
                hs.stdin_occ += o["ret"]
                hs.stdin_accepted += o["ret"]
                if o["ret"] < o["size"]:
                    hs.stdin_full = True
            elif o["ret"] == EAGAIN:
                hs.stdin_full = True
            elif o["ret"] == EPIPE:
                hs.par_open[0] = False
                hs.epipe_seen[0] = True
        elif name == "RA" and hs is not None:
            st = o["st"]
            if st in (1, 2):
                hs.pipe_bytes[st] -= o["total"]
                hs.received[st] += o["total"]
                if o["ret"] == EPIPE:
                    hs.par_open[st] = False
                    hs.epipe_seen[st] = True
        elif name == "WA" and hs is not None:
            hs.stdin_occ += o["done"]
            hs.stdin_accepted += o["done"]
            if o["ret"] == EPIPE:
                hs.par_open[0] = False
                hs.epipe_seen[0] = True
        elif name in ("DR", "RN") and hs is not None:
            calls = o.get("_calls")
            if calls is not None:
                for c in calls:
                    tag, size = c[1], c[2]
                    if tag in (1, 2):
                        hs.pipe_bytes[tag] -= size
                        hs.received[tag] += size
                        if size == 0:
                            hs.par_open[tag] = False
            if o["ret"] == 0 or name == "RN":
                for p in (1, 2):
                    if hs.par_open[p]:
                        hs.received[p] += max(0, hs.pipe_bytes[p])
                        hs.pipe_bytes[p] = 0
                        hs.par_open[p] = False
            if name == "RN":
                if o["ret"] >= 0:
                    hs.reaped = True
                hs.destroyed = True
        elif name == "CL" and hs is not None:
            if o["ret"] == 0 and o["st"] in (0, 1, 2):
                hs.par_open[o["st"]] = False
        elif name in ("W", "ST") and hs is not None:
            if o["ret"] >= 0:
                hs.reaped = True
        elif name == "D" and hs is not None:
            hs.destroyed = True
