"""Build the code under test from /repo's current working tree plus the harness.

Library objects are compiled per config and partially linked with `ld -r --wrap=<sym>`
for every __wrap_<sym> the harness defines, so only the library's own libc calls are
interposed. An import audit makes a blind spot (a libc import that is neither wrapped
nor known to be pure) an *inconclusive* result (exit 2), never a pass.
"""
import glob
import hashlib
import os
import subprocess
import sys
from concurrent.futures import ThreadPoolExecutor

VERIF = os.path.dirname(os.path.dirname(os.path.abspath(__file__)))
REPO = os.environ.get("VERIF_REPO", "/repo")
BUILD = os.environ.get("VERIF_BUILD", os.path.join(VERIF, "build"))
SRC = os.path.join(VERIF, "src")

SAN = ["-fsanitize=address,undefined", "-fno-sanitize-recover=all", "-fno-omit-frame-pointer"]
CONFIGS = {
    "asan": {"cc": "gcc", "cflags": ["-O1", "-g"] + SAN, "ldflags": SAN},
    "asan-nd": {"cc": "gcc", "cflags": ["-O1", "-g", "-DNDEBUG"] + SAN, "ldflags": SAN},
    "tsan": {"cc": "gcc", "cflags": ["-O1", "-g", "-fsanitize=thread"], "ldflags": ["-fsanitize=thread"]},
    "plain": {"cc": "gcc", "cflags": ["-O1", "-g"], "ldflags": []},
}

SAN_PREFIX = ("__asan_", "__ubsan_", "__tsan_", "__sanitizer_", "__lsan_", "__msan_")
if os.environ.get("VERIF_COV"):
    # coverage survey (tools/coverage.sh): same harness, library compiled with gcov counters
    for _c in CONFIGS.values():
        _c["cflags"] = _c["cflags"] + ["--coverage", "-fprofile-update=atomic", "-DVERIF_COV"]
        _c["ldflags"] = _c["ldflags"] + ["--coverage"]
    SAN_PREFIX = SAN_PREFIX + ("__gcov_",)

# libc imports of the library that have no effect the monitors care about
PURE = {
    "memcpy", "memset", "memmove", "memcmp", "strlen", "strcpy", "strncpy", "strchr", "strrchr",
    "strcmp", "strncmp", "abs", "__errno_location", "__xpg_strerror_r", "strerror_r",
    "__assert_fail", "__stack_chk_fail", "stdin", "stdout", "stderr", "environ", "__environ",
    "_GLOBAL_OFFSET_TABLE_", "__tls_get_addr", "strnlen", "memchr", "__memcpy_chk",
    "__strcpy_chk", "__memset_chk",
}


class Inconclusive(Exception):
    pass


def run(cmd, **kw):
    p = subprocess.run(cmd, stdout=subprocess.PIPE, stderr=subprocess.STDOUT, text=True, **kw)
    if p.returncode != 0:
        raise Inconclusive("build step failed: %s\n%s" % (" ".join(cmd), p.stdout[-4000:]))
    return p.stdout


def _hash(paths, extra=""):
    h = hashlib.sha256(extra.encode())
    for p in sorted(paths):
        h.update(p.encode())
        with open(p, "rb") as f:
            h.update(f.read())
    return h.hexdigest()


def lib_sources():
    srcs = [s for s in sorted(glob.glob(os.path.join(REPO, "reproc/src/*.c")))
            if not s.endswith(".windows.c")]
    return srcs


def lib_headers():
    return sorted(glob.glob(os.path.join(REPO, "reproc/src/*.h")) +
                  glob.glob(os.path.join(REPO, "reproc/include/reproc/*.h")))


LIB_INC = ["-I" + os.path.join(REPO, "reproc/include"), "-I" + os.path.join(REPO, "reproc/src")]
LIB_DEFS = ["-std=c99", "-DREPROC_MULTITHREADED", "-w"]


def _stamp_ok(stamp, digest):
    try:
        return open(stamp).read() == digest
    except OSError:
        return False


def build_vchild():
    out = os.path.join(BUILD, "vchild")
    srcs = [os.path.join(SRC, "vchild.c"), os.path.join(SRC, "msg.c"), os.path.join(SRC, "common.h")]
    d = _hash(srcs)
    stamp = out + ".stamp"
    if os.path.exists(out) and _stamp_ok(stamp, d):
        return out
    os.makedirs(BUILD, exist_ok=True)
    run(["gcc", "-O1", "-static", "-o", out + ".tmp", srcs[0], srcs[1]])
    os.replace(out + ".tmp", out)
    open(stamp, "w").write(d)
    return out


def wrapped_symbols(wrap_obj):
    out = run(["nm", "--defined-only", wrap_obj])
    syms = []
    for line in out.splitlines():
        parts = line.split()
        if len(parts) == 3 and parts[2].startswith("__wrap_"):
            syms.append(parts[2][len("__wrap_"):])
    return sorted(syms)


def build_lib(config, extra_cflags=(), windows=False):
    """Compile the library from the tree, partially link with --wrap. Returns path of reproc_w.o."""
    cfg = CONFIGS[config]
    bdir = os.path.join(BUILD, config)
    os.makedirs(os.path.join(bdir, "lib"), exist_ok=True)
    srcs = lib_sources()
    hdrs = lib_headers()
    wrap_c = os.path.join(SRC, "wrap.c")
    wrap_h = os.path.join(SRC, "wrap.h")
    flags = cfg["cflags"] + list(extra_cflags)
    digest = _hash(srcs + hdrs + [wrap_c, wrap_h], " ".join(flags))
    out = os.path.join(bdir, "reproc_w.o")
    wrap_o = os.path.join(bdir, "wrap.o")
    stamp = out + ".stamp"
    if os.path.exists(out) and os.path.exists(wrap_o) and _stamp_ok(stamp, digest):
        return out
    objs = []

    def cc(s):
        o = os.path.join(bdir, "lib", os.path.basename(s)[:-2] + ".o")
        run([cfg["cc"]] + flags + LIB_DEFS + LIB_INC + ["-c", s, "-o", o])
        return o

    with ThreadPoolExecutor(8) as ex:
        objs = list(ex.map(cc, srcs))
    run([cfg["cc"]] + flags + ["-I" + SRC, "-c", wrap_c, "-o", wrap_o])
    syms = wrapped_symbols(wrap_o)
    run(["ld", "-r"] + ["--wrap=" + s for s in syms] + objs + ["-o", out])
    audit_imports(out, syms)
    open(stamp, "w").write(digest)
    return out


def audit_imports(obj, wrapped):
    out = run(["nm", "-u", obj])
    bad = []
    for line in out.splitlines():
        parts = line.split()
        if not parts:
            continue
        s = parts[-1].split("@")[0]
        if s.startswith("__wrap_") or s in PURE or s.startswith(SAN_PREFIX):
            continue
        bad.append(s)
    if bad:
        raise Inconclusive("import audit: the library imports symbols the monitors do not see: %s"
                           % ", ".join(sorted(set(bad))))


def build_engine(config, name, sources, extra_cflags=(), extra_ld=(), cxx=False):
    """Link an engine binary: harness sources + wrap.o + reproc_w.o."""
    cfg = CONFIGS[config]
    bdir = os.path.join(BUILD, config)
    lib = build_lib(config)
    out = os.path.join(bdir, name)
    srcs = [os.path.join(SRC, s) for s in sources]
    hdrs = glob.glob(os.path.join(SRC, "*.h"))
    flags = cfg["cflags"] + list(extra_cflags)
    digest = _hash(srcs + hdrs + [lib, os.path.join(bdir, "wrap.o")], " ".join(flags + list(extra_ld)))
    stamp = out + ".stamp"
    if os.path.exists(out) and _stamp_ok(stamp, digest):
        return out
    objs = []
    for s in srcs:
        o = os.path.join(bdir, name + "." + os.path.basename(s) + ".o")
        comp = "g++" if s.endswith(".cpp") else cfg["cc"]
        std = ["-std=c++11"] if s.endswith(".cpp") else []
        run([comp] + std + flags + ["-I" + SRC] + LIB_INC +
            ["-I" + os.path.join(REPO, "reproc++/include"), "-c", s, "-o", o])
        objs.append(o)
    linker = "g++" if cxx else cfg["cc"]
    run([linker] + cfg["ldflags"] + objs + [os.path.join(bdir, "wrap.o"), lib, "-o", out + ".tmp",
                                             "-lpthread"] + list(extra_ld))
    os.replace(out + ".tmp", out)
    open(stamp, "w").write(digest)
    return out


def build_scen(config="asan"):
    return build_engine(config, "scen", ["scen.c", "msg.c", "vchild.c"],
                        extra_cflags=["-DVCHILD_EMBEDDED"])


def build_mt(config="tsan"):
    return build_engine(config, "mt", ["mt.c", "msg.c"])


def build_examples(config="asan"):
    """The repository's own example programs linked against the interposed library, main renamed (src/exdrv.c).
    Keys of the result: the C examples by name, the reproc++ examples as "xx_<name>" (src/exshim.cpp)."""
    cfg = CONFIGS[config]
    bdir = os.path.join(BUILD, config)
    lib = build_lib(config)
    exdir = os.path.join(REPO, "reproc", "examples")
    xxdir = os.path.join(REPO, "reproc++", "examples")
    names = [n for n in ("drain", "env", "parent", "path", "poll", "read", "run") if os.path.exists(os.path.join(exdir, n + ".c"))]
    xnames = [n for n in ("drain", "run", "forward", "background") if os.path.exists(os.path.join(xxdir, n + ".cpp"))]
    drv = os.path.join(SRC, "exdrv.c")
    shim = os.path.join(SRC, "exshim.cpp")
    cpp = os.path.join(REPO, "reproc++/src/reproc.cpp")
    hpp = sorted(glob.glob(os.path.join(REPO, "reproc++/include/reproc++/*.hpp")) +
                 glob.glob(os.path.join(REPO, "reproc++/include/reproc++/detail/*.hpp")))
    digest = _hash([os.path.join(exdir, n + ".c") for n in names] + [os.path.join(xxdir, n + ".cpp") for n in xnames] +
                   [drv, shim, cpp, lib, os.path.join(bdir, "wrap.o")] + hpp, " ".join(cfg["cflags"]))
    stamp = os.path.join(bdir, "examples.stamp")
    outs = {n: os.path.join(bdir, "ex_" + n) for n in names}
    outs.update({"xx_" + n: os.path.join(bdir, "exxx_" + n) for n in xnames})
    if all(os.path.exists(o) for o in outs.values()) and _stamp_ok(stamp, digest):
        return outs
    drv_o = os.path.join(bdir, "exdrv.o")
    run([cfg["cc"]] + cfg["cflags"] + ["-I" + SRC, "-c", drv, "-o", drv_o])
    for n in names:
        o = os.path.join(bdir, "ex_%s.o" % n)
        run([cfg["cc"]] + cfg["cflags"] + ["-std=c99", "-w", "-Dmain=example_main", '-DRESOURCE_DIRECTORY="/usr/bin"'] +   # the env example runs RESOURCE_DIRECTORY/env
            LIB_INC + ["-c", os.path.join(exdir, n + ".c"), "-o", o])
        run([cfg["cc"]] + cfg["ldflags"] + [drv_o, o, os.path.join(bdir, "wrap.o"), lib, "-o", outs[n] + ".tmp", "-lpthread"])
        os.replace(outs[n] + ".tmp", outs[n])
    if xnames:
        try:
            inc = LIB_INC + ["-I" + os.path.join(REPO, "reproc++/include")]
            cpp_o = os.path.join(bdir, "exxx_reproc_cpp.o")
            run(["g++", "-std=c++11", "-w"] + cfg["cflags"] + inc + ["-c", cpp, "-o", cpp_o])
            shim_o = os.path.join(bdir, "exshim.o")
            run(["g++", "-std=c++11"] + cfg["cflags"] + ["-c", shim, "-o", shim_o])
            for n in xnames:
                o = os.path.join(bdir, "exxx_%s.o" % n)
                run(["g++", "-std=c++11", "-w", "-Dmain=example_main_cxx"] + cfg["cflags"] + inc + ["-c", os.path.join(xxdir, n + ".cpp"), "-o", o])
                run(["g++"] + cfg["ldflags"] + [drv_o, shim_o, o, cpp_o, os.path.join(bdir, "wrap.o"), lib, "-o", outs["xx_" + n] + ".tmp", "-lpthread"])
                os.replace(outs["xx_" + n] + ".tmp", outs["xx_" + n])
        except Inconclusive:
            # the C++ wrapper is a separate component: if it does not build on the tree under check, the C examples still run
            for n in xnames:
                outs.pop("xx_" + n, None)
            return outs
    open(stamp, "w").write(digest)
    return outs


def build_rt(config="asan"):
    return build_engine(config, "rt", ["rt.c", "msg.c"])


def build_cxxio(config="asan", name="cxxio"):
    """C16 C++ pass (cxxio) / C15 C++ pass (cxxlife): reproc.cpp + the templates against the real (interposed) C library."""
    cfg = CONFIGS[config]
    bdir = os.path.join(BUILD, config)
    lib = build_lib(config)
    out = os.path.join(bdir, name)
    cpp = os.path.join(REPO, "reproc++/src/reproc.cpp")
    hpp = sorted(glob.glob(os.path.join(REPO, "reproc++/include/reproc++/*.hpp")) +
                 glob.glob(os.path.join(REPO, "reproc++/include/reproc++/detail/*.hpp")))
    harness = os.path.join(SRC, name + ".cpp")
    flags = cfg["cflags"]
    digest = _hash([cpp, harness, lib, os.path.join(bdir, "wrap.o"), os.path.join(SRC, "common.h"), os.path.join(SRC, "wrap.h")] + hpp, " ".join(flags))
    stamp = out + ".stamp"
    if os.path.exists(out) and _stamp_ok(stamp, digest):
        return out
    inc = LIB_INC + ["-I" + os.path.join(REPO, "reproc++/include"), "-I" + SRC]
    o1 = os.path.join(bdir, name + "_reproc_cpp.o")
    run(["g++", "-std=c++11", "-w"] + flags + inc + ["-c", cpp, "-o", o1])
    o2 = os.path.join(bdir, name + ".o")
    run(["g++", "-std=c++11"] + flags + inc + ["-c", harness, "-o", o2])
    run(["g++"] + cfg["ldflags"] + [o2, o1, os.path.join(bdir, "wrap.o"), lib, "-o", out + ".tmp", "-lpthread"])
    os.replace(out + ".tmp", out)
    open(stamp, "w").write(digest)
    return out


def build_win(config="asan", extra=False):
    """C18: the Windows sources compiled on Linux against stubs/windows.h, allocation calls wrapped.
    extra=True: a second binary that also contains redirect.windows.c and the modes calling process_wait /
    process_terminate / process_kill / process_destroy / redirect_* directly (kept apart so that a change of
    those internal signatures cannot take the C18 engine down with it)."""
    cfg = CONFIGS[config]
    bdir = os.path.join(BUILD, config + ("-winx" if extra else "-win"))
    os.makedirs(bdir, exist_ok=True)
    srcs = [os.path.join(REPO, "reproc/src", f) for f in ("process.windows.c", "utf.windows.c", "handle.windows.c") +
            (("redirect.windows.c",) if extra else ())]
    harness = [os.path.join(SRC, "win.c"), os.path.join(SRC, "wrap.c"), os.path.join(SRC, "wrap.h"),
               os.path.join(VERIF, "stubs", "windows.h"), os.path.join(VERIF, "stubs", "io.h")]
    flags = cfg["cflags"]
    out = os.path.join(bdir, "win")
    digest = _hash(srcs + lib_headers() + harness, " ".join(flags))
    stamp = out + ".stamp"
    if os.path.exists(out) and _stamp_ok(stamp, digest):
        return out
    inc = ["-I" + os.path.join(VERIF, "stubs")] + LIB_INC
    objs = []
    for s in srcs:
        o = os.path.join(bdir, os.path.basename(s)[:-2] + ".o")
        run([cfg["cc"]] + flags + ["-std=c99", "-D_WIN32", "-w"] + inc + ["-c", s, "-o", o])
        objs.append(o)
    lib = os.path.join(bdir, "win_w.o")
    run(["ld", "-r", "--wrap=malloc", "--wrap=calloc", "--wrap=realloc", "--wrap=free"] + objs + ["-o", lib])
    wrap_o = os.path.join(bdir, "wrap.o")
    run([cfg["cc"]] + flags + ["-I" + SRC, "-c", os.path.join(SRC, "wrap.c"), "-o", wrap_o])
    win_o = os.path.join(bdir, "win.o")
    run([cfg["cc"]] + flags + ["-D_WIN32", "-w", "-I" + SRC] + (["-DWIN_EXTRA"] if extra else []) + inc +
        ["-c", os.path.join(SRC, "win.c"), "-o", win_o])
    run([cfg["cc"]] + cfg["ldflags"] + [win_o, wrap_o, lib, "-o", out + ".tmp", "-lpthread"])
    os.replace(out + ".tmp", out)
    open(stamp, "w").write(digest)
    return out


API_FUNCS = ["reproc_new", "reproc_start", "reproc_pid", "reproc_poll", "reproc_read", "reproc_write", "reproc_close",
             "reproc_wait", "reproc_terminate", "reproc_kill", "reproc_stop", "reproc_destroy", "reproc_strerror"]


def build_cxx(config="asan"):
    """C19: reproc.cpp + headers from the tree against the fake C API in src/cxx.cpp; the real C
    library is linked with its API functions renamed (its constants keep their names)."""
    cfg = CONFIGS[config]
    bdir = os.path.join(BUILD, config + "-cxx")
    os.makedirs(bdir, exist_ok=True)
    cpp = os.path.join(REPO, "reproc++/src/reproc.cpp")
    hpp = sorted(glob.glob(os.path.join(REPO, "reproc++/include/reproc++/*.hpp")) +
                 glob.glob(os.path.join(REPO, "reproc++/include/reproc++/detail/*.hpp")))
    harness = [os.path.join(SRC, "cxx.cpp")]
    flags = cfg["cflags"]
    out = os.path.join(bdir, "cxx")
    digest = _hash(lib_sources() + lib_headers() + hpp + [cpp] + harness, " ".join(flags))
    stamp = out + ".stamp"
    if os.path.exists(out) and _stamp_ok(stamp, digest):
        return out
    renames = ["-D%s=real_%s" % (f, f) for f in API_FUNCS]
    objs = []
    for s in lib_sources():
        o = os.path.join(bdir, "c_" + os.path.basename(s)[:-2] + ".o")
        run([cfg["cc"]] + flags + LIB_DEFS + LIB_INC + renames + ["-c", s, "-o", o])
        objs.append(o)
    inc = LIB_INC + ["-I" + os.path.join(REPO, "reproc++/include")]
    o1 = os.path.join(bdir, "reproc_cpp.o")
    run(["g++", "-std=c++11", "-w"] + flags + inc + ["-c", cpp, "-o", o1])
    o2 = os.path.join(bdir, "cxx.o")
    run(["g++", "-std=c++11"] + flags + inc + ["-c", harness[0], "-o", o2])
    run(["g++"] + cfg["ldflags"] + [o2, o1] + objs + ["-o", out + ".tmp", "-lpthread"])
    os.replace(out + ".tmp", out)
    open(stamp, "w").write(digest)
    return out


def build_opts(config="asan"):
    return build_engine(config, "opts", ["opts.c"])


if __name__ == "__main__":
    try:
        print(build_vchild())
        for c in sys.argv[1:] or ["asan"]:
            print(build_scen(c))
    except Inconclusive as e:
        print("INCONCLUSIVE:", e)
        sys.exit(2)
