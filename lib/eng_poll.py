"""Engine 'poll' (virtual time): C08 deadlines/timeouts, C09 poll events.
The oracle rebuilds the ground-truth stream/process state from child acks and kernel end
events (model_io.World) and compares every reproc_poll / reproc_wait against it."""
import itertools

from core import (Case, Violation, crash_key, rng_for, EINVAL, EPIPE, ETIMEDOUT, EAGAIN, INFINITE,
                  DEADLINE, EV_IN, EV_OUT, EV_ERR, EV_EXIT, EV_DEADLINE, R_PIPE, R_DISCARD, R_STDOUT,
                  R_PARENT)
from model_io import World
from scengen import start_tokens, KILL_POLICY

INF = float("inf")
BITNAMES = {EV_IN: "IN", EV_OUT: "OUT", EV_ERR: "ERR", EV_EXIT: "EXIT", EV_DEADLINE: "DEADLINE"}


def bitstr(b):
    return "|".join(n for v, n in BITNAMES.items() if b & v) or "0"


# ---------------------------------------------------------------- generators
SRC_KINDS = ["null", "nodl", "dl30", "dl70", "dl110", "expired"]
DL_OPT = {"nodl": 0, "dl30": 50, "dl70": 90, "dl110": 130, "expired": 10, "dlmax": 2147483647, "dl1": 1}
TIMEOUTS = [0, 20, 60, 200, INFINITE]
ACT_TIMES = [None, 25, 45, 85, 125, 215]


def build_c08_case(cid, kinds, timeout, act, r, interests_mode=0):
    """kinds: source kinds in poll order. act: (time, 'W'|'X', source index) or None."""
    handles = {}
    src = []
    nh = 0
    kind_handle = {}
    for i, k in enumerate(kinds):
        if k == "null":
            src.append((-1, r.choice([0, EV_OUT, 15])))
            continue
        if nh < 4:
            h = nh
            nh += 1
            handles[h] = {"dl": DL_OPT[k], "stop": KILL_POLICY, "err": R_PIPE if r.random() < 0.3 else None}
            handles[h] = {a: b for a, b in handles[h].items() if b is not None}
            kind_handle.setdefault(k, []).append(h)
        else:
            # more sources than handles: reuse a handle of the same kind, else any
            h = r.choice(kind_handle.get(k) or list(handles))
        intr = EV_OUT | EV_EXIT if interests_mode == 0 else r.choice([EV_OUT, EV_EXIT, EV_OUT | EV_EXIT, EV_IN | EV_OUT | EV_ERR | EV_EXIT, EV_OUT | EV_ERR])
        src.append((h, intr))
    parts = []
    for h, o in handles.items():
        parts.append("N %d" % h)
        parts.append(start_tokens(h, o))
    events = []
    if act is not None and handles:
        t, what, si = act
        hs = [s[0] for s in src if s[0] >= 0]
        h = hs[si % len(hs)]
        if what == "W":
            parts.append("E %d %d W 1 10" % (h, t))
        else:
            parts.append("E %d %d X %d" % (h, t, r.randrange(256)))
        events.append((t, what, h))
    parts.append("Z 20")
    pl = "PL %d %d %s" % (timeout, len(src), " ".join("%s %d" % (h if h >= 0 else "-", i) for h, i in src))
    # a hanging poll ends the case; otherwise poll again at once (expired deadlines repeat)
    parts.append(pl)
    parts.append("PL 0 %d %s" % (len(src), " ".join("%s %d" % (h if h >= 0 else "-", i) for h, i in src)))
    for h in handles:
        parts.append("D %d" % h)
    meta = {"handles": handles, "polls": [{"to": timeout, "src": src}, {"to": 0, "src": src}],
            "kinds": list(kinds), "act": events}
    sig = "c08/%s/%s/%s" % (",".join(kinds), timeout, act[:2] if act else None)
    return Case(cid, " ; ".join(parts), meta, sig)


def gen_c08(tier, seed):
    cases = []
    idx = 0
    if tier == "thorough":
        # complete grid for n <= 3 sources: kinds^n (ordered) x timeout, activity rotated
        for n in (1, 2, 3):
            for kinds in itertools.product(SRC_KINDS, repeat=n):
                if all(k == "null" for k in kinds):
                    continue
                for to in TIMEOUTS:
                    for rep in range(2):
                        r = rng_for(seed, "c08", idx)
                        at = ACT_TIMES[(idx + rep) % len(ACT_TIMES)] if rep else None
                        act = (at, r.choice("WX"), r.randrange(8)) if at else None
                        cases.append(build_c08_case("c08-%d" % idx, kinds, to, act, r, rep))
                        idx += 1
        extra = 6000
    else:
        for n in (1, 2):
            for kinds in itertools.product(SRC_KINDS, repeat=n):
                if all(k == "null" for k in kinds):
                    continue
                for to in TIMEOUTS:
                    r = rng_for(seed, "c08", idx)
                    at = ACT_TIMES[idx % len(ACT_TIMES)]
                    act = (at, r.choice("WX"), r.randrange(8)) if at else None
                    cases.append(build_c08_case("c08-%d" % idx, kinds, to, act, r, idx % 2))
                    idx += 1
        extra = 2500
    for _ in range(extra):
        r = rng_for(seed, "c08x", idx)
        n = r.randint(3, 5)
        kinds = tuple(r.choice(SRC_KINDS * 3 + ["dlmax", "dlmax", "dl1"]) for _ in range(n))
        if all(k == "null" for k in kinds):
            kinds = kinds[:-1] + ("nodl",)
        at = r.choice(ACT_TIMES)
        act = (at, r.choice("WX"), r.randrange(8)) if at else None
        c = build_c08_case("c08-%d" % idx, kinds, r.choice(TIMEOUTS + [2147483647] if idx % 7 == 0 else TIMEOUTS), act, r, 1)
        if r.random() < 0.2:
            c = Case(c.id, c.script.replace(" ; PL ", " ; FR poll 0 %d ; PL " % (40000 + r.choice([1, 5, 15, 35])), 1), c.meta, c.sig + "/intr")
        cases.append(c)
        idx += 1
    # many sources (most of them process-less or repeated) under a descriptor limit smaller than four
    # slots per source: the number of sources is the caller's business, not a reason to fail
    for k in range(24 if tier == "quick" else 200):
        r = rng_for(seed, "c08many", idx)
        o0 = {"dl": r.choice([0, 30, 110]), "stop": KILL_POLICY}
        o1 = {"dl": r.choice([0, 70]), "stop": KILL_POLICY}
        nsrc = r.choice([65, 70, 100, 150, 300])
        src = []
        for _ in range(nsrc):
            w = r.randrange(10)
            src.append((-1, r.choice([0, EV_OUT, 15])) if w < 7 else ((0 if w < 9 else 1), r.choice([EV_OUT, EV_EXIT, EV_OUT | EV_EXIT])))
        src[r.randrange(nsrc)] = (0, EV_OUT | EV_EXIT)
        to = r.choice([20, 60, 200])
        parts = ["rlimit 256", "N 0", start_tokens(0, o0), "N 1", start_tokens(1, o1)]
        if r.random() < 0.5:
            parts.append("E %d %d %s" % (r.randrange(2), r.choice([25, 45]), r.choice(["W 1 10", "X 3"])))
        parts.append("Z 20")
        pl = "%d %s" % (nsrc, " ".join("%s %d" % (h if h >= 0 else "-", i) for h, i in src))
        parts += ["PL %d %s" % (to, pl), "PL 0 %s" % pl, "D 0", "D 1"]
        cases.append(Case("c08-%d" % idx, " ; ".join(parts), {"handles": {0: o0, 1: o1}, "polls": [{"to": to, "src": src}, {"to": 0, "src": src}], "many": nsrc},
                          "c08many/%d/%d/%d" % (nsrc, to, k)))
        idx += 1
    # a failed start with a deadline must not leave that deadline on a handle that is started again
    for stale in (30, 60, 150):
        for dl2 in (0, 0, 500):
            for to in (100, 300, INFINITE, DEADLINE):
                for use in ("W", "PL"):
                    r = rng_for(seed, "c08s", idx)
                    o = {"dl": dl2, "stop": KILL_POLICY}
                    parts = ["N 0", start_tokens(0, {"prog": "missing", "dl": stale, "stop": KILL_POLICY}), start_tokens(0, o),
                             "E 0 205 X %d" % r.randrange(256)]
                    polls = []
                    if use == "W":
                        parts.append("W 0 %d" % to)
                    else:
                        t2 = 100 if to == DEADLINE else to
                        parts.append("PL %d 1 0 %d" % (t2, EV_EXIT))
                        polls.append({"to": t2, "src": [(0, EV_EXIT)]})
                    parts.append("D 0")
                    cases.append(Case("c08-%d" % idx, " ; ".join(parts), {"handles": {0: o}, "polls": polls, "stale": stale},
                                      "c08stale/%s/%s/%s/%s" % (stale, dl2, to, use)))
                    idx += 1
    # reproc_wait timing: timeout x deadline x child exit time, exhaustive small grid
    for dl in (0, 10, 50, 90, 2147483647, 1):
        for to in (0, 20, 60, 200, INFINITE, DEADLINE, 2147483647):
            for ex in (None, 5, 25, 45, 85, 125, 215):
                for pre in (0, 20, -5, -15):
                    # pre < 0: no pause, but a signal interrupts the first wait -pre ms into it
                    r = rng_for(seed, "c08w", idx)
                    o = {"dl": dl, "stop": KILL_POLICY}
                    parts = ["N 0", start_tokens(0, o)]
                    pre0 = pre
                    intr = None
                    if pre < 0:
                        intr = "FR poll 0 %d" % (40000 - pre)   # armed right before the first wait
                        pre = 0
                    if ex is not None:
                        parts.append("E 0 %d X %d" % (ex, r.randrange(256)))
                    if pre:
                        parts.append("Z %d" % pre)
                    if intr:
                        parts.append(intr)
                    parts.append("W 0 %d" % to)
                    parts.append("W 0 %d" % to)
                    parts.append("D 0")
                    meta = {"handles": {0: o}, "polls": [], "wait": {"to": to, "dl": dl, "ex": ex, "pre": pre}}
                    cases.append(Case("c08-%d" % idx, " ; ".join(parts), meta, "c08w/%s/%s/%s/%s" % (dl, to, ex, pre0)))
                    idx += 1
    return cases


def gen_c09(tier, seed):
    n = 4000 if tier == "quick" else 60000
    cases = []
    for i in range(n):
        r = rng_for(seed, "c09", i)
        nh = r.randint(1, 3)
        handles = {}
        parts = []
        late = []
        for h in range(nh):
            o = {"stop": KILL_POLICY, "ignpipe": 1}
            o["in"] = r.choice([R_PIPE, R_PIPE, R_PIPE, R_DISCARD])
            o["out"] = r.choice([R_PIPE, R_PIPE, R_PIPE, R_DISCARD])
            o["err"] = r.choice([R_PIPE, R_PIPE, R_STDOUT, R_DISCARD, R_PARENT])
            o["nb"] = r.randrange(2)
            if r.random() < 0.15:
                o["fork"] = r.choice([1, 2])   # 2: the child side of the fork execs the helper itself
            if r.random() < 0.1:
                o["input"] = r.choice([0, 1, 100])
                o["in"] = R_PIPE
            if r.random() < 0.15:
                o["dl"] = r.choice([10, 500])
            handles[h] = o
            parts.append("N %d" % h)
            if r.random() < 0.06:
                # never started / failed start: nothing pollable
                if r.random() < 0.5:
                    parts.append(start_tokens(h, dict(o, prog="missing")))
                    o["failed"] = 1
                else:
                    o["notstarted"] = 1
                continue
            parts.append(start_tokens(h, o))
            # child-side history before the poll (t = 5)
            for fd in (1, 2):
                k = r.randrange(6)
                if k == 0:
                    parts.append("E %d 5 W %d %d" % (h, fd, r.choice([1, 10, 5000, 70000])))
                elif k == 1:
                    parts.append("E %d 5 C %d" % (h, fd))
                elif k == 2:
                    parts.append("E %d 5 W %d %d" % (h, fd, r.choice([3, 400])))
                    parts.append("E %d 5 C %d" % (h, fd))
            k = r.randrange(8)
            if k == 0:
                parts.append("E %d 5 C 0" % h)
            elif k == 1:
                parts.append("E %d 5 X %d" % (h, r.randrange(256)))
            elif k == 2:
                late.append("E %d 35 X %d" % (h, r.randrange(256)))
            elif k == 3:
                late.append("E %d 35 W %d %d" % (h, r.choice([1, 2]), r.choice([1, 100])))
            elif k == 4:
                late.append("E %d 35 C %d" % (h, r.choice([0, 1, 2])))
        parts.extend(late)
        parts.append("Z 10")
        # parent-side history
        for h in range(nh):
            o = handles[h]
            if o.get("failed") or o.get("notstarted"):
                continue
            k = r.randrange(10)
            if k == 0:
                parts.append("CL %d %d" % (h, r.randrange(3)))
            elif k == 1:
                parts.append("RD %d 1 100000" % h)
            elif k == 2:
                parts.append("RD %d 1 100000 ; RD %d 1 100000" % (h, h))
            elif k == 3 and o["nb"]:
                parts.append("WR %d 200000" % h)  # fills the stdin pipe (nonblocking)
            elif k == 4:
                parts.append("W %d 0" % h)
            elif k == 5:
                parts.append("WR %d 10" % h)
        npoll = r.randint(1, 2)
        polls = []
        for _ in range(npoll):
            ns = r.randint(1, 4)
            src = []
            for _ in range(ns):
                if r.random() < 0.15:
                    src.append((-1, r.randrange(16)))
                else:
                    it = r.randrange(16) if r.random() < 0.7 else r.choice([EV_OUT | EV_ERR, EV_EXIT, EV_IN])
                    if r.random() < 0.15:
                        it |= r.choice([16, 32, 48, 1 << 20])  # bits that are not pollable interests
                    src.append((r.randrange(nh), it))
            to = r.choice([0, 0, 30, 30, 100])
            parts.append("PLP %d %d %s" % (to, ns, " ".join("%s %d" % (h if h >= 0 else "-", it) for h, it in src)))
            polls.append({"to": to, "src": src})
        for h in range(nh):
            parts.append("D %d" % h)
        meta = {"handles": handles, "polls": polls}
        sig = "c09/%d" % i
        cases.append(Case("c09-%d" % i, " ; ".join(parts), meta, sig))
    # polls over many (mostly process-less or repeated) sources, shared with C08
    cases += [c for c in gen_c08(tier, seed) if c.meta.get("many")]
    return cases


# ---------------------------------------------------------------- oracle
def judge_poll(prop_c08, prop_c09, op, spec, pre, post, pending, vs, obs):
    src = spec["src"]
    to = spec["to"]
    t0 = op["t0"]

    def V(prop, key, msg):
        vs.append(Violation(prop, "%s/poll/%s" % (prop, key), msg + " [src=%s to=%s]" % (src, to)))

    dls = []
    for i, (h, it) in enumerate(src):
        if h >= 0 and pre.h[h].started and not pre.h[h].destroyed and pre.h[h].deadline_abs is not None:
            dls.append((pre.h[h].deadline_abs, i))
    expired = [i for d, i in dls if d <= t0]
    d_min = min(d for d, _ in dls) if dls else None
    anypollable = any(pre.h[h].pollable(it) for h, it in src if h >= 0)
    shape = ",".join("null" if h < 0 else ("dl" if pre.h[h].deadline_abs is not None else "nodl") for h, _ in src)

    if "hang" in op:
        if to != INFINITE:
            V(prop_c08, "blocks-past-timeout", "poll with timeout %d never returned" % to)
        elif d_min is not None:
            V(prop_c08, "blocks-past-deadline", "poll never returned although a deadline exists at %s" % d_min)
        else:
            mustany = any(post.h[h].expected_bits(it)[0] for h, it in src if h >= 0)
            if mustany:
                V(prop_c09, "blocks-although-ready", "poll blocks forever although an event is pending")
            elif not anypollable:
                V(prop_c09, "blocks-instead-of-epipe", "poll blocks forever with nothing pollable")
            else:
                obs["expected_hangs"] += 1
        return
    ret, t1 = op["ret"], op["t1"]
    evs = [e[2] for e in op["src"]]
    obs["polls_checked"] += 1
    if expired:
        obs["expired_deadline_polls"] += 1
        ok = (ret == 1 and t1 == t0 and sum(1 for e in evs if e) == 1 and
              any(evs[i] == EV_DEADLINE for i in expired))
        if not ok and not anypollable and ret == EPIPE:
            ok = True
        if not ok:
            V(prop_c08, "expired-deadline-not-reported", "deadline expired before the call; got ret=%d events=%s t=%d..%d" % (ret, evs, t0, t1))
        return
    if not anypollable:
        obs["epipe_expected"] += 1
        if ret != EPIPE:
            V(prop_c09, "no-epipe-with-nothing-pollable", "ret=%d events=%s although no requested stream can be polled" % (ret, evs))
        return
    if ret == EPIPE:
        V(prop_c09, "epipe-while-pollable", "EPIPE although a requested stream is still pollable")
        return
    bound = min(t0 + to if to >= 0 else INF, d_min if d_min is not None else INF)
    if ret == -4 and any(t[0] == "poll" and t[7] & 1 for t in op.get("tr", [])):
        # a signal interrupted the wait (injected, some virtual ms into it): reporting the
        # interruption is fine, blocking past the bound because of it is not
        obs["interrupted_polls"] = obs.get("interrupted_polls", 0) + 1
        if t1 > bound:
            V(prop_c08, "interrupted-poll-blocks-past-bound", "interrupted poll returned at %d, bound %s" % (t1, bound))
        return
    if ret < 0:
        V(prop_c09, "unexpected-error:%d" % ret, "poll returned %d" % ret)
        V(prop_c08, "error-instead-of-bounded-return:%d" % ret, "poll over %d sources returned %d; nothing is wrong with the call, it has to come back with 0 or events by %s" % (len(src), ret, bound))
        return
    if t1 > bound:
        which = "deadline" if (d_min is not None and d_min == bound) else "timeout"
        V(prop_c08, "blocks-past-%s" % which, "returned at %d, bound %s (timeout %s, earliest deadline %s)" % (t1, bound, to, d_min))
    pre_must = [pre.h[h].expected_bits(it)[0] if h >= 0 else 0 for h, it in src]
    if any(pre_must) and t1 > t0:
        V(prop_c09, "ready-but-blocked", "events %s were pending at call time but poll waited %d ms" % (pre_must, t1 - t0))
    if any(e & EV_DEADLINE for e in evs):
        obs["deadline_events"] += 1
        idx = [i for i, e in enumerate(evs) if e]
        if ret != 1 or len(idx) != 1 or evs[idx[0]] != EV_DEADLINE:
            V(prop_c08, "deadline-event-not-alone", "ret=%d events=%s" % (ret, evs))
        elif d_min is None:
            V(prop_c08, "deadline-event-without-deadline", "events=%s" % evs)
        else:
            earliest = [i for d, i in dls if d == d_min]
            same_proc = [i for i, (h, _) in enumerate(src) if h >= 0 and any(src[j][0] == h for j in earliest)]
            if idx[0] not in same_proc:
                V(prop_c08, "deadline-on-wrong-source", "DEADLINE on source %d, earliest deadline is on %s" % (idx[0], earliest))
            if t1 != max(t0, d_min):
                V(prop_c08, "deadline-event-at-wrong-time", "DEADLINE at %d, deadline is %d" % (t1, d_min))
            if to >= 0 and t0 + to < d_min:
                V(prop_c08, "deadline-before-timeout-order", "DEADLINE reported although the timeout (%d) came first" % (t0 + to))
        return
    if ret == 0:
        obs["timeouts"] += 1
        if any(evs):
            V(prop_c09, "events-with-zero-return", "ret=0 events=%s" % evs)
        if to < 0:
            V(prop_c08, "zero-return-infinite-timeout", "ret=0 with infinite timeout")
        elif t1 != t0 + to:
            V(prop_c08, "timeout-at-wrong-time", "ret=0 at %d, expected %d" % (t1, t0 + to))
        if d_min is not None and to >= 0 and d_min < t0 + to:
            V(prop_c08, "timeout-reported-but-deadline-first", "ret=0 although deadline %d < timeout end %d" % (d_min, t0 + to))
        post_must = [post.h[h].expected_bits(it)[0] if h >= 0 else 0 for h, it in src]
        if any(post_must):
            V(prop_c09, "missing-event:%s" % bitstr(max(post_must)), "ret=0 although %s pending" % post_must)
        return
    obs["event_polls"] += 1
    cnt = 0
    for i, (h, it) in enumerate(src):
        e = evs[i]
        if e:
            cnt += 1
        if h < 0:
            if e:
                V(prop_c09, "events-on-null-source", "source %d has no process but events=%s" % (i, e))
            continue
        if e & ~(it | EV_DEADLINE) or e & ~31:
            V(prop_c09, "event-outside-interests", "source %d interests=%s events=%s" % (i, bitstr(it), e))
            continue
        must, may = post.h[h].expected_bits(it)
        obs["bits_checked"] += 1
        for b in (EV_IN, EV_OUT, EV_ERR, EV_EXIT):
            if e & b and not (must | may) & b:
                V(prop_c09, "spurious-event:%s" % BITNAMES[b], "source %d reports %s, ground truth says not ready" % (i, BITNAMES[b]))
            if must & b and not e & b:
                V(prop_c09, "missing-event:%s" % BITNAMES[b], "source %d: %s is pending/closed/exited but not reported (events=%s)" % (i, BITNAMES[b], bitstr(e)))
            if e & b:
                obs["bit_" + BITNAMES[b]] = obs.get("bit_" + BITNAMES[b], 0) + 1
    if ret != cnt:
        V(prop_c09, "wrong-count", "ret=%d but %d sources have events" % (ret, cnt))
    if t1 > t0 and not any(p.get("vt") == t1 for p in pending):
        V(prop_c08, "returned-at-unexplained-time", "events at %d but nothing happened then" % t1)


WAIT_LATE_TOL = 3


def judge_wait(op, hs_pre, hs_post, vs, obs):
    to = op["to"]
    t0 = op["t0"]
    if hs_pre.reaped or not hs_pre.started:
        return
    eff = to
    if to == DEADLINE:
        eff = INFINITE if hs_pre.deadline_abs is None else max(0, hs_pre.deadline_abs - t0)

    def V(key, msg):
        vs.append(Violation("C08", "C08/poll/wait-%s" % key, msg + " [to=%s deadline=%s]" % (to, hs_pre.deadline_abs)))
    end = hs_post.end_vt
    if "hang" in op:
        if eff != INFINITE:
            V("blocks-past-timeout", "wait(%s) never returned" % to)
        elif end is not None:
            V("blocks-although-exited", "wait never returned although the child ended at %s" % end)
        else:
            obs["expected_hangs"] += 1
        return
    obs["waits_checked"] += 1
    ret, t1 = op["ret"], op["t1"]
    if ret == ETIMEDOUT:
        obs["wait_timeouts"] += 1
        if eff == INFINITE:
            V("timeout-from-infinite", "ETIMEDOUT from an unbounded wait")
        elif t1 < t0 + eff:
            V("timeout-early", "ETIMEDOUT at %d, not before %d" % (t1, t0 + eff))
        elif t1 > t0 + eff + WAIT_LATE_TOL:
            # the contract gives the lower bound ("no earlier than its timeout"); past it only clock granularity
            # is granted (an implementation that resumes an interrupted wait recomputes what remains from a ms clock)
            V("timeout-late", "ETIMEDOUT at %d, bound %d" % (t1, t0 + eff))
        if end is not None and end <= t1:
            V("timeout-although-exited", "ETIMEDOUT at %d but the child ended at %d" % (t1, end))
    elif ret == -4 and any(t[0] == "poll" and t[7] & 1 for t in op.get("tr", [])):
        obs["interrupted_waits"] = obs.get("interrupted_waits", 0) + 1
        if eff != INFINITE and t1 > t0 + eff:
            V("interrupted-late", "interrupted wait returned at %d, bound %d" % (t1, t0 + eff))
    elif ret < 0:
        V("unexpected-error:%d" % ret, "wait returned %d" % ret)
    elif ret >= 0:
        obs["wait_statuses"] += 1
        if end is None:
            V("status-while-running", "status %d but the child has not ended" % ret)
        elif t1 != max(t0, end):
            V("status-at-wrong-time", "status at %d, child ended at %d" % (t1, end))
        elif eff != INFINITE and t1 > t0 + eff:
            V("blocks-past-timeout", "status at %d; the wait was bounded by %d (the child ended after the bound)" % (t1, t0 + eff))


def judge_probe(op, vs, obs):
    obs["probes"] += 1
    waited = any(t[7] & 2 for t in op.get("tr", []))
    name = {"RD": "read", "WR": "write", "W": "wait"}[op["op"]]
    if "hang" in op:
        vs.append(Violation("C09", "C09/poll/probe-%s-blocks-forever" % name, "%s after a reported event never returns" % name))
        return
    if waited or op["t1"] != op["t0"]:
        vs.append(Violation("C09", "C09/poll/probe-%s-blocked" % name, "%s after a reported event had to wait" % name))
    if op["op"] in ("RD", "WR") and op["ret"] == EAGAIN:
        vs.append(Violation("C09", "C09/poll/probe-%s-wouldblock" % name, "%s after a reported event returned EWOULDBLOCK" % name))
    if op["op"] == "W" and op["ret"] == ETIMEDOUT:
        vs.append(Violation("C09", "C09/poll/probe-wait-timedout", "wait(0) after EXIT event returned ETIMEDOUT"))


def judge(prop, case, log):
    vs = []
    obs = {"polls_checked": 0, "expired_deadline_polls": 0, "epipe_expected": 0, "deadline_events": 0,
           "timeouts": 0, "event_polls": 0, "bits_checked": 0, "expected_hangs": 0, "probes": 0,
           "waits_checked": 0, "wait_timeouts": 0, "wait_statuses": 0}
    if log.crashed():
        kind, lastop = crash_key(log)
        vs.append(Violation(prop, "%s/poll/%s:after-%s" % (prop, kind, lastop), "runner died (%s): %s" % (log.end, log.stderr[:300])))
        return vs, obs, False
    if log.fin is None:
        vs.append(Violation(prop, "%s/poll/no-fin" % prop, "no final record"))
        return vs, obs, False
    world = World(case.meta["handles"])
    pending = []
    pi = 0
    polls = case.meta.get("polls", [])
    for line in log.lines:
        if "ev" in line:
            pending.append(line)
            continue
        if "op" not in line:
            continue
        op = line
        if op["op"] in ("PL", "PLP"):
            spec = polls[pi] if pi < len(polls) else None
            pi += 1
            pre = world.clone()
            for e in pending:
                if e.get("vt", 0) <= op["t0"]:
                    pre.event(e)
            for e in pending:
                world.event(e)
            if spec is not None:
                judge_poll("C08", "C09", op, spec, pre, world, pending, vs, obs)
            pending = []
            if "hang" in op:
                break
            continue
        pre = None
        if op["op"] == "W":
            pre = world.clone()
            for e in pending:
                if e.get("vt", 0) <= op["t0"]:
                    pre.event(e)
        for e in pending:
            world.event(e)
        pending = []
        if op.get("probe"):
            judge_probe(op, vs, obs)
        elif op["op"] == "W" and op["h"] in world.h and pre is not None:
            judge_wait(op, pre.h[op["h"]], world.h[op["h"]], vs, obs)
        world.op(op)
        if "hang" in op:
            break
    nontrivial = obs["polls_checked"] + obs["waits_checked"] + obs["expected_hangs"] > 0
    return vs, obs, nontrivial


class PollEngine:
    name = "poll"

    def cases(self, prop, tier, seed):
        return {"C08": gen_c08, "C09": gen_c09}[prop](tier, seed)

    def judge(self, prop, case, log):
        return judge(prop, case, log)


ENGINE = PollEngine()
