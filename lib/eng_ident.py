"""Engine 'ident': the helper child reports its own descriptor table (as found at exec),
argv, environment, cwd and executable. Serves C10 (stream identity), C11 (no other
descriptor inherited) and C03 (launch fidelity)."""
import itertools
import os
import stat

from core import (Case, Violation, crash_key, rng_for, EPIPE, EAGAIN, R_DEFAULT, R_PIPE, R_PARENT,
                  R_DISCARD, R_STDOUT, R_HANDLE, R_FILE, R_PATH)
from scengen import start_tokens, KILL_POLICY

NULLDEV = os.makedev(1, 3)
TNAME = {0: "default", 1: "pipe", 2: "parent", 3: "discard", 4: "stdout", 5: "handle", 6: "file", 7: "path"}


def V(vs, prop, key, msg):
    vs.append(Violation(prop, "%s/ident/%s" % (prop, key), msg))


def common_fail(prop, log, vs):
    if log.crashed():
        kind, lastop = crash_key(log)
        V(vs, prop, "%s:after-%s" % (kind, lastop), "runner died (%s): %s" % (log.end, log.stderr[:300]))
        return True
    if log.fin is None:
        V(vs, prop, "no-fin", "no final record")
        return True
    return False


# ---------------------------------------------------------------- C10
def effective(o):
    """documented effective redirect per stream for a *valid* option set"""
    eff = []
    for s, k in enumerate(("in", "out", "err")):
        ty = o.get(k, R_DEFAULT)
        if o.get("h%sfd" % k) is not None:
            eff.append("self:%d" % o["h%sfd" % k])   # the caller's own descriptor N given as the handle
            continue
        if o.get("f%sstd" % k) is not None:
            eff.append("self:%d" % o["f%sstd" % k])  # the caller's own stdout/stderr FILE given as the FILE
            continue
        if ty == R_DEFAULT:
            if s > 0 and o.get("rfile"):
                ty = "sfile"
            elif s > 0 and o.get("rpath"):
                ty = "spath"
            elif o.get("rparent"):
                ty = R_PARENT
            elif o.get("rdiscard"):
                ty = R_DISCARD
            else:
                ty = R_PARENT if s == 2 else R_PIPE
        eff.append(ty)
    return eff


def gen_c10(tier, seed):
    combos = []
    for i, o, e in itertools.product([R_PIPE, R_PARENT, R_DISCARD, R_HANDLE, R_FILE, R_PATH],
                                     [R_PIPE, R_PARENT, R_DISCARD, R_HANDLE, R_FILE, R_PATH],
                                     [R_PIPE, R_PARENT, R_DISCARD, R_STDOUT, R_HANDLE, R_FILE, R_PATH]):
        combos.append({"in": i, "out": o, "err": e})
    combos += [{}, {"rparent": 1}, {"rdiscard": 1}, {"rfile": 1}, {"rpath": 1},
               {"rparent": 1, "in": R_PIPE}, {"rdiscard": 1, "err": R_PIPE}, {"rfile": 1, "in": R_DISCARD},
               {"rpath": 1, "in": R_PATH}, {"in": R_HANDLE, "rdiscard": 1}]
    # the caller's own standard descriptors passed as handles (the shell's 1>&2, 2>&1); descriptor 0
    # cannot be passed this way: a zero handle means "not set"
    SELF = [{"houtfd": 2}, {"houtfd": 2, "err": R_STDOUT}, {"houtfd": 2, "herrfd": 2}, {"houtfd": 2, "err": R_PIPE},
            {"houtfd": 2, "err": R_DISCARD}, {"herrfd": 1}, {"herrfd": 1, "out": R_PIPE}, {"herrfd": 1, "out": R_DISCARD},
            {"houtfd": 1}, {"herrfd": 2}, {"herrfd": 1, "houtfd": 1}, {"houtfd": 2, "herrfd": 1},
            {"hinfd": 1, "out": R_DISCARD}, {"hinfd": 2, "houtfd": 2, "herrfd": 1},
            {"houtfd": 2, "in": R_PIPE, "err": R_PARENT}]
    SELF += [{"ferrstd": 1}, {"ferrstd": 1, "out": R_DISCARD}, {"foutstd": 2}, {"foutstd": 2, "ferrstd": 1}, {"foutstd": 2, "err": R_STDOUT}]
    combos += SELF
    cases = []
    idx = 0
    masks = range(8)
    for ci, o in enumerate(combos):
        used = [o[k] for k in ("hinfd", "houtfd", "herrfd", "foutstd", "ferrstd") if k in o]
        for mask in list(masks) + [8]:
            if mask < 8 and any(mask & (1 << fd) for fd in used):
                continue   # passing a closed descriptor as a handle is not a valid configuration
            opts = dict(o, nb=1, ident=1, stop=KILL_POLICY)
            parts = []
            if mask and mask < 8:
                parts.append("CLOSE012 %d" % mask)
            parts.append("N 0")
            if mask == 8:
                # the handle first goes through a failed start that had created pipes for all three streams
                parts.append(start_tokens(0, {"prog": "missing", "err": R_PIPE}))
            parts += [start_tokens(0, opts), "WR 0 1", "RD 0 1 1", "RD 0 2 1", "K 0", "W 0 -1", "D 0"]
            cases.append(Case("c10-%d" % idx, " ; ".join(parts), {"opts": o, "mask": mask if mask < 8 else 0, "after_failed_start": mask == 8},
                              "c10/%s/%d" % (sorted(o.items()), mask)))
            idx += 1
            if ci % 4 == 1 and mask in (0, 5, 7):
                # the same configuration in fork mode: the child side keeps running the caller's code on
                # the streams start set up (no exec, so close-on-exec never applies)
                fparts = (["CLOSE012 %d" % mask] if mask else []) + ["N 0", start_tokens(0, dict(opts, fork=1)), "WR 0 1", "RD 0 1 1", "RD 0 2 1", "K 0", "W 0 -1", "D 0"]
                cases.append(Case("c10-%d" % idx, " ; ".join(fparts), {"opts": o, "mask": mask, "after_failed_start": False, "fork": 1},
                                  "c10fork/%s/%d" % (sorted(o.items()), mask)))
                idx += 1
    return cases


def judge_c10(case, log):
    vs = []
    o = case.meta["opts"]
    mask = case.meta["mask"]
    obs = {"streams_checked": 0, "configs": set(), "pipes_checked": 0, "nulldev_fallbacks": 0}
    if common_fail("C10", log, vs):
        return vs, obs, False
    sops = [x for x in log.ops if x["op"] == "S"]
    idents = [e for e in log.events if e.get("ev") == "ident"]
    if not sops:
        return vs, obs, False
    s = sops[-1] if case.meta.get("after_failed_start") else sops[0]
    ctx = "mask=%d%s" % (mask, " after-failed-start" if case.meta.get("after_failed_start") else "")
    if case.meta.get("after_failed_start"):
        obs["after_failed_start"] = 1
    if s.get("ret", -1) <= 0:
        V(vs, "C10", "valid-config-start-fails:%s" % ("closed-std" if mask else "all-open"),
          "start with a valid redirect configuration %s returned %s (%s)" % (o, s.get("ret"), ctx))
        return vs, obs, True
    if s.get("hello") != 1 or not idents:
        V(vs, "C10", "child-did-not-run:%s" % ("closed-std" if mask else "all-open"),
          "start succeeded but the program never reported (%s, %s)" % (o, ctx))
        return vs, obs, True
    fds = {f[0]: f for f in idents[0]["fds"]}   # fd -> [fd, dev, ino, rdev, mode, fl, fdfl]
    objs = s.get("objs", [])
    std = {ob[0]: (ob[2], ob[3]) for ob in objs if ob[1] == "std"}
    # trace record layout: [fn, side, k, a0, a1, ret, err, flags, vt0, vt1, a2]; a2 of a pipe record = inode
    pipe_inodes = set(t[10] for t in s["tr"] if t[0] == "pipe" and t[1] == 0 and len(t) > 10)
    eff = effective(o)
    obs["configs"].add(str(sorted(o.items())))
    if case.meta.get("fork"):
        obs["fork_mode_configs"] = obs.get("fork_mode_configs", 0) + 1
    lib = s.get("lib_fds", [])   # [fd, ino, fl]
    names = ("stdin", "stdout", "stderr")
    closed_class = "closed-std" if mask else "all-open"
    for st in range(3):
        ty = eff[st]
        obs["streams_checked"] += 1
        f = fds.get(st)
        tn = TNAME.get(ty, ty)
        if f is None:
            V(vs, "C10", "stream-missing-in-child:%s:%s" % (tn, closed_class),
              "the program has no %s (config %s, %s)" % (names[st], o, ctx))
            continue
        dev, ino, rdev, mode, fl = f[1], f[2], f[3], f[4], f[5]
        acc = fl & 3
        want_acc = 0 if st == 0 else 1

        def bad(key, msg):
            V(vs, "C10", "%s:%s:%s" % (key, tn, closed_class), "%s: %s (config %s, %s)" % (names[st], msg, o, ctx))

        if ty == R_PIPE:
            obs["pipes_checked"] += 1
            if not stat.S_ISFIFO(mode):
                bad("not-a-pipe", "expected a pipe, got mode %o dev %s ino %s" % (mode, dev, ino))
                continue
            if ino not in pipe_inodes:
                bad("foreign-pipe", "the pipe (inode %s) is not one the library created in this start" % ino)
            if acc != want_acc:
                bad("pipe-wrong-direction", "access mode %d" % acc)
            mine = [l for l in lib if l[1] == ino]
            if not mine:
                bad("parent-lacks-pipe-end", "the parent holds no end of the pipe the child got")
            elif all((l[2] & 3) == acc for l in mine):
                bad("parent-holds-same-end", "the parent holds the same end as the child")
        elif ty == R_PARENT:
            parent_open = not (mask & (1 << st))
            if parent_open:
                if (dev, ino) != tuple(std.get(st, (None, None))) and st in std:
                    bad("not-parent-stream", "expected the parent's own %s %s, got (%s,%s)" % (names[st], std.get(st), dev, ino))
            else:
                obs["nulldev_fallbacks"] += 1
                if not (stat.S_ISCHR(mode) and rdev == NULLDEV):
                    bad("parent-closed-not-nulldev", "the parent has no %s: expected the null device, got mode %o rdev %s (%s,%s)" % (names[st], mode, rdev, dev, ino))
                elif acc != want_acc and acc != 2:
                    bad("nulldev-wrong-direction", "null device opened with access mode %d" % acc)
        elif ty == R_DISCARD:
            if not (stat.S_ISCHR(mode) and rdev == NULLDEV):
                bad("not-nulldev", "expected the null device, got mode %o rdev %s" % (mode, rdev))
            elif acc != want_acc:
                bad("nulldev-wrong-direction", "access mode %d" % acc)
        elif ty == R_STDOUT:
            f1 = fds.get(1)
            if f1 is None or (dev, ino) != (f1[1], f1[2]):
                bad("stderr-not-childs-stdout", "stderr (%s,%s) differs from the child's stdout %s" % (dev, ino, f1 and (f1[1], f1[2])))
        elif isinstance(ty, str) and ty.startswith("self:"):
            n = int(ty[5:])
            obs["self_handles"] = obs.get("self_handles", 0) + 1
            if n in std and (dev, ino) != tuple(std[n]):
                bad("not-the-given-descriptor", "expected the caller's descriptor %d %s, got (%s,%s)" % (n, std[n], dev, ino))
        else:
            kind = {R_HANDLE: "handle", R_FILE: "file", R_PATH: "path", "sfile": "sfile", "spath": "spath"}[ty]
            want = [ob for ob in objs if ob[1] == kind and (ob[0] == st or ob[0] == -1)]
            if not want:
                bad("object-unknown", "harness did not record the %s object" % kind)
                continue
            if (dev, ino) != (want[0][2], want[0][3]):
                bad("wrong-object", "expected the given %s (%s,%s), got (%s,%s)" % (kind, want[0][2], want[0][3], dev, ino))
            elif kind in ("path", "spath") and acc != want_acc:
                bad("path-wrong-direction", "path opened with access mode %d" % acc)
    # the parent is given a pipe end exactly when the stream is a pipe
    # per pipe the child got: exactly one end in the parent (other descriptors the library keeps
    # for itself - exit detection - are its own business)
    child_pipes = set(fds[st][2] for st in range(3) if eff[st] == R_PIPE and fds.get(st) is not None and stat.S_ISFIFO(fds[st][4]))
    for ino in child_pipes:
        ends = [l for l in lib if l[1] == ino]
        if len(ends) > 1:
            V(vs, "C10", "parent-end-count:%s" % closed_class,
              "the library holds %d descriptors on the pipe (inode %s) of one child stream, expected one (config %s, %s)" % (len(ends), ino, o, ctx))
    for st in range(3):
        f = fds.get(st)
        if eff[st] != R_PIPE and f is not None and stat.S_ISFIFO(f[4]) and f[2] in pipe_inodes and any(l[1] == f[2] for l in lib) \
                and not (eff[st] == R_STDOUT and eff[1] == R_PIPE):
            V(vs, "C10", "parent-holds-end-of-unpiped-stream:%s" % closed_class,
              "%s is not configured as a pipe but the parent holds an end of what the child got (config %s, %s)" % (names[st], o, ctx))
    probes = [x for x in log.ops if x["op"] in ("WR", "RD") and "hang" not in x]
    for p in probes:
        st = 0 if p["op"] == "WR" else p["st"]
        is_pipe = eff[st] == R_PIPE
        if is_pipe and p["ret"] == EPIPE and fds.get(st) is not None and stat.S_ISFIFO(fds[st][4]):
            V(vs, "C10", "piped-stream-reports-epipe:%s" % closed_class, "%s on piped %s returned EPIPE (config %s)" % (p["op"], names[st], o))
        if not is_pipe and p["ret"] != EPIPE:
            V(vs, "C10", "unpiped-stream-usable:%s" % closed_class, "%s on non-piped %s returned %d (config %s)" % (p["op"], names[st], p["ret"], o))
    return vs, obs, True


# ---------------------------------------------------------------- C11
def gen_c11(tier, seed):
    n = 800 if tier == "quick" else 15000
    cases = []
    fams = [{}, {"rdiscard": 1}, {"rparent": 1}, {"out": R_PATH, "err": R_STDOUT}, {"in": R_HANDLE, "out": R_FILE},
            {"err": R_PIPE}, {"rpath": 1}, {"in": R_DISCARD, "out": R_DISCARD, "err": R_DISCARD},
            # user-supplied handles/FILEs at low descriptor numbers and without close-on-exec
            {"in": R_HANDLE, "err": R_FILE, "hlow": 1}, {"out": R_HANDLE, "err": R_HANDLE, "hlow": 1},
            {"in": R_FILE, "out": R_FILE, "err": R_STDOUT, "hlow": 1}, {"rfile": 1, "in": R_HANDLE, "hlow": 1}]
    for i in range(n):
        r = rng_for(seed, "c11", i)
        limit = r.choice([64, 64, 256, 1024, 4096, 20000])
        if limit >= 4096 and tier == "quick" and i % 4:
            limit = 256
        nfds = r.choice([1, 3, 10, 40, 300])
        nfds = min(nfds, limit - 20)
        inclmax = 1 if i % 3 == 0 else 0
        o = dict(fams[i % len(fams)], ident=1, stop=KILL_POLICY)
        if i % 7 == 3:
            # fork mode: no exec will close the close-on-exec descriptors, the child side of the fork must
            # come back from start with nothing but its streams and the exit handle all the same
            o["fork"] = 1
        mask = r.choice([0, 0, 0, 1, 4, 7])
        if o.get("hlow"):
            mask = 0  # user handles must stay >= 3 (crossing them onto 0-2 is outside the quantifier)
        parts = ["rlimit %d" % limit]
        if mask:
            parts.append("CLOSE012 %d" % mask)
        if i % 9 == 4 and limit >= 256:
            # an earlier start under a lower limit must not influence this one
            parts = ["rlimit 64", "N 1", start_tokens(1, {"stop": KILL_POLICY}), "K 1", "W 1 -1", "D 1"] + parts
        siblings = []
        tail = []
        if i % 5 == 2:
            # one or two other children of the same parent are alive, with all three streams piped:
            # their pipe ends and exit handles belong to the parent, not to the new child
            for h in range(1, r.choice([2, 3])):
                siblings += ["N %d" % h, start_tokens(h, {"err": R_PIPE, "stop": KILL_POLICY, "fork": 1 if r.random() < 0.2 else None})]
                tail += ["K %d" % h, "W %d -1" % h, "D %d" % h]
        parts += ["OPENFDS %d %d %d" % (nfds, r.randrange(100000), inclmax)] + siblings + ["N 0", start_tokens(0, o), "K 0", "W 0 -1", "D 0"] + tail
        cases.append(Case("c11-%d" % i, " ; ".join(parts), {"opts": o, "limit": limit, "inclmax": inclmax, "mask": mask, "siblings": len(siblings) // 2},
                          "c11/%d/%d/%d/%d/%d" % (limit, nfds, inclmax, i % len(fams), i)))
    return cases


def judge_c11(case, log):
    vs = []
    m = case.meta
    obs = {"children_checked": 0, "extra_fds_open_in_parent": 0, "noncloexec_extra": 0, "limit_minus_1_cases": 0,
           "limits": set()}
    if common_fail("C11", log, vs):
        return vs, obs, False
    idents = [e for e in log.events if e.get("ev") == "ident" and e.get("h") == 0]
    opened = [l for l in log.lines if "openfds" in l]
    if "N 1" in case.script:
        obs["limit_raised_between_starts"] = 1
    if opened:
        obs["extra_fds_open_in_parent"] = len(opened[0]["openfds"])
        obs["noncloexec_extra"] = sum(1 for f in opened[0]["openfds"] if not f[1])
        if any(f[0] == opened[0]["limit"] - 1 for f in opened[0]["openfds"]):
            obs["limit_minus_1_cases"] = 1
    if not idents:
        return vs, obs, False
    obs["children_checked"] = 1
    if m["opts"].get("fork"):
        obs["fork_mode_children_checked"] = 1
    obs["limits"].add(m["limit"])
    fds = idents[0]["fds"]
    extra = [f for f in fds if f[0] > 2]
    fifos = [f for f in extra if stat.S_ISFIFO(f[4])]
    others = [f for f in extra if not stat.S_ISFIFO(f[4])]
    ext = {f[0]: f[1] for f in (opened[0]["openfds"] if opened else [])}
    if m["opts"].get("hlow"):
        obs["inheritable_user_handles"] = 1
    limit = m["limit"]
    if m["opts"].get("fork"):
        # child side of a fork-mode start: there is no exec, so what the three streams were made from (pipe ends,
        # opened files, the caller's handles) is still open next to the exit handle - "the caller is responsible for
        # closing" them - but nothing else of the parent may be: none of the descriptors the scenario opened
        # beforehand, and not more than those four in all
        for f in extra:
            if f[0] in ext:
                where = "limit-1" if f[0] == limit - 1 else "other"
                V(vs, "C11", "inherited-descriptor:fork-mode:%s" % where, "the child side of a fork-mode start still has descriptor %d of the parent open (cloexec=%s); limit %d" % (f[0], ext.get(f[0]), limit))
        inrange = [f for f in extra if f[0] < limit]   # (the harness keeps its own descriptors above the soft limit)
        if len(inrange) > 4:
            V(vs, "C11", "fork-mode-child-keeps-descriptors", "the child side of a fork-mode start has %d descriptors besides 0-2: %s" % (len(inrange), [f[0] for f in inrange][:12]))
        if len(fifos) == 0:
            V(vs, "C11", "exit-handle-missing", "the fork-mode child has no exit handle (descriptors: %s)" % [f[0] for f in fds])
        return vs, obs, True
    for f in others:
        where = "limit-1" if f[0] == limit - 1 else "other"
        V(vs, "C11", "inherited-descriptor:%s" % where, "the program sees descriptor %d (mode %o) besides 0-2 and the exit handle; limit %d, cloexec=%s" % (f[0], f[4], limit, ext.get(f[0])))
    if len(fifos) > 1:
        inherited = [f for f in fifos if f[0] in ext]
        for f in inherited:
            where = "limit-1" if f[0] == limit - 1 else "other"
            V(vs, "C11", "inherited-descriptor:%s" % where, "the program sees descriptor %d (a pipe the parent had open) ; limit %d" % (f[0], limit))
        if not inherited:
            V(vs, "C11", "several-extra-pipes", "the program sees %d extra pipe descriptors: %s" % (len(fifos), [f[0] for f in fifos]))
    if case.meta.get("siblings"):
        obs["with_live_siblings"] = obs.get("with_live_siblings", 0) + 1
    if len(fifos) == 0:
        V(vs, "C11", "exit-handle-missing", "the program has no exit handle (descriptors: %s)" % [f[0] for f in fds])
    return vs, obs, True


# ---------------------------------------------------------------- C03
ODD = [b"", b" ", b"\t", b"a b", b'"', b"'", b"\\", b"a\\\"b", b"=", b"==x", b"\xff\xfe", b"\xc3\x28", b"*?[]", b"$HOME", b"a\nb",
       b"-", b"--", b"\x01", b";|&"]


def hx(b):
    return b.hex()


def rand_str(r, maxlen=40):
    k = r.randrange(6)
    if k == 0:
        return r.choice(ODD)
    n = r.choice([0, 1, 3, 10, maxlen])
    return bytes(r.randrange(1, 256) for _ in range(n))


def gen_c03(tier, seed):
    n = 1500 if tier == "quick" else 30000
    cases = []
    for i in range(n):
        r = rng_for(seed, "c03", i)
        kind = i % 11
        parts = []
        meta = {"kind": kind}
        o = {"ident": 1, "stop": KILL_POLICY, "rdiscard": 1}
        # arguments
        nargs = r.choice([0, 1, 2, 5, 20, 59]) if kind != 1 else 3
        args = [rand_str(r) for _ in range(nargs)]
        if kind == 1:
            args = [bytes(r.randrange(1, 256) for _ in range(r.choice([1000, 20000, 70000]))) for _ in range(2)] + [b"z"]
        o["argvx"] = ",".join(hx(a) for a in args) if args else "-"
        meta["args"] = [hx(a) for a in args]
        # environment
        penv = r.choice([0, 1, 5, 40, 200]) if kind in (2, 3) or r.random() < 0.3 else None
        if penv is not None:
            parts.append("ENV %d %d" % (penv, r.randrange(100000)))
        behavior = r.randrange(2)
        nextra = r.choice([0, 0, 1, 3, 30])
        extra = []
        for _ in range(nextra):
            name = r.choice([b"A", b"PATH2", b"K0", b"X_Y", b"A"])  # duplicates on purpose
            extra.append(name + b"=" + rand_str(r))
        if extra and r.random() < 0.08:
            # entries the block formats make awkward: no '=', or nothing at all (not last)
            extra.insert(r.randrange(len(extra)), r.choice([b"NOEQUALS", b"", b"=", b"=x"]))
        o["env"] = behavior
        if extra or r.random() < 0.5:
            o["envx"] = ",".join(hx(e) for e in extra) if extra else "-"
        meta["behavior"] = behavior
        meta["extra"] = [hx(e) for e in extra] if "envx" in o else None
        meta["penv"] = penv
        # working directory and program resolution
        gone = kind == 6 and r.random() < 0.35
        rootcase = kind == 5 and r.random() < 0.25
        if kind in (4, 5, 6) and not gone and not rootcase:
            # relative program name; a *different* x lives in the requested working directory
            reldir = r.choice(["p", "p/q", "dir with space"])
            wdname = "elsewhere"
            parts += ["N 0",
                      "MKDIRS %s" % hx(("%s" % reldir).encode()),
                      "LINKVC 0 %s right" % hx(b"x"),
                      "CHDIR %s" % hx(("../" * (reldir.count("/") + 1)).encode()),
                      "MKDIRS %s" % hx(("%s/%s" % (wdname, reldir)).encode()),
                      "LINKVC 0 %s wrong" % hx(b"x"),
                      "CHDIR %s" % hx(("../" * (reldir.count("/") + 2)).encode())]
            form = kind - 4
            prog = ["%s/x" % reldir, "./%s/x" % reldir, "%s/../%s/x" % (reldir, reldir.split("/")[-1])][form]
            o["progx"] = hx(prog.encode())
            if r.random() < 0.8:
                o["wdx"] = hx(wdname.encode())
                meta["wd_rel"] = wdname
            meta["expect_tag"] = "right"
            parts.append(start_tokens(0, o))
        elif gone:
            # the parent's working directory has been removed: a relative program cannot be resolved
            # at all; the same relative name exists under the requested working directory (decoy).
            # Only a clean failure is right - running the decoy is resolution against the wrong place.
            parts += ["N 0", "MKDIRS %s" % hx(b"h0/wd/p"), "LINKVC 0 %s wrong" % hx(b"x"), "CHDIR %s" % hx(b"../../.."), "RMCWD"]
            o["progx"] = hx(b"p/x")
            o["wd"] = 1
            meta["cwd_gone"] = 1
            parts.append(start_tokens(0, o))
        elif rootcase:
            # the caller's working directory is "/" (the only one that ends in a slash): program named
            # relative to it, child in another directory
            parts += ["N 0"]
            o["rootrel"] = 1
            o["wd"] = 1
            meta["wd_is_child_dir"] = 1
            meta["root_cwd"] = 1
            parts.append(start_tokens(0, o))
        elif kind == 7:
            # bare name through PATH (parent and child PATH agree: behavior extend, PATH untouched)
            o["env"] = 0
            meta["behavior"] = 0
            parts += ["N 0", "MKDIRS %s" % hx(b"bin"), "LINKVC 0 %s right" % hx(b"verif-helper-x"), "CHDIR %s" % hx(b".."),
                      "PATHADD %s" % hx(b"bin")]
            o["progx"] = hx(b"verif-helper-x")
            meta["expect_tag"] = "right"
            meta["path_added"] = 1
            if r.random() < 0.6:
                # a different working directory for the child, and decoys of the same bare name in
                # the parent's directory and in that one: a name without a slash goes through PATH
                parts += ["LINKVC 0 %s wrong" % hx(b"verif-helper-x"), "MKDIRS %s" % hx(b"elsewhere"),
                          "LINKVC 0 %s wrong" % hx(b"verif-helper-x"), "CHDIR %s" % hx(b"..")]
                o["wdx"] = hx(b"elsewhere")
                meta["wd_rel"] = "elsewhere"
            if penv is not None:
                parts = [p for p in parts if not p.startswith("ENV ")]
                meta["penv"] = None
            parts.append(start_tokens(0, o))
        elif kind == 8:
            # deep parent cwd: getcwd needs several reallocations; cwd length + program name straddle
            # the 4096-byte growth steps of the buffer, up to beyond PATH_MAX
            T = r.choice([4096, 4096, 8192, 12288, 16384])
            d = r.choice([1, 2, 3, 5, 17, 100, 200, 260, 700, 2000])
            target = T - d
            parts += ["N 0", "CWDPAD %d" % target]
            if r.random() < 0.5:
                parts.append("LINKVC 0 %s right" % hx(b"x"))
                o["progx"] = hx(b"./x")
                meta["expect_tag"] = "right"
            else:
                # long relative name (need not exist: the buffer arithmetic runs before exec fails)
                o["progx"] = hx(("sub/" + "y" * r.choice([1, 10, 100, 250])).encode())
                meta["expect_fail"] = 1
            o["wdx"] = hx(b"/")
            meta["deep"] = target
            meta["wd_abs"] = "/"
            parts.append(start_tokens(0, o))
        elif kind == 10:
            # fork mode: the child side returns from start with the requested environment and cwd
            o["fork"] = 1
            o.pop("argvx", None)
            meta["args"] = None
            if r.random() < 0.5:
                o["wd"] = 1
                meta["wd_is_child_dir"] = 1
            parts += ["N 0", start_tokens(0, o)]
        else:
            if kind == 9 and r.random() < 0.5:
                o["wd"] = 1
                meta["wd_is_child_dir"] = 1
            parts += ["N 0", start_tokens(0, o)]
        parts += ["K 0", "W 0 -1", "D 0"]
        cases.append(Case("c03-%d" % i, " ; ".join(parts), meta, "c03/%d/%d/%s/%s/%s/%d" % (kind, nargs, penv, behavior, nextra, i)))
    return cases


def judge_c03(case, log):
    vs = []
    m = case.meta
    obs = {"launches_checked": 0, "args_compared": 0, "env_entries_compared": 0, "relative_programs": 0,
           "deep_cwd_cases": 0, "deep_cwd_clean_failures": 0, "path_searches": 0, "kinds": set()}
    if common_fail("C03", log, vs):
        return vs, obs, False
    sops = [x for x in log.ops if x["op"] == "S"]
    if not sops:
        return vs, obs, False
    s = sops[0]
    idents = [e for e in log.events if e.get("ev") == "ident"]
    hellos = [e for e in log.events if e.get("ev") == "hello"]
    if m.get("cwd_gone"):
        obs["removed_cwd_cases"] = obs.get("removed_cwd_cases", 0) + 1
        if "hang" in s:
            V(vs, "C03", "removed-cwd-hang", "start hangs when the parent's working directory has been removed")
        elif s["ret"] > 0:
            tag = hellos[0].get("tag") if hellos else None
            V(vs, "C03", "wrong-program-resolved:removed-cwd", "the parent's working directory is gone, so the relative program cannot be resolved; start returned %d and the program that ran is tagged '%s' (the one under the child's working directory)" % (s["ret"], tag))
        return vs, obs, True
    if "deep" in m:
        obs["deep_cwd_cases"] += 1
        if "hang" in s:
            V(vs, "C03", "deep-cwd-hang", "start hangs with a %d-byte working directory" % m["deep"])
            return vs, obs, True
        if s["ret"] < 0:
            # beyond the OS limit only a clean failure is required (memory errors would have crashed the runner)
            obs["deep_cwd_clean_failures"] += 1
            if m["deep"] < 3900 and not m.get("expect_fail"):
                V(vs, "C03", "deep-cwd-start-fails-below-limit", "start failed with %d for a %d-byte cwd" % (s["ret"], m["deep"]))
            return vs, obs, True
    if "hang" in s or s["ret"] <= 0:
        V(vs, "C03", "valid-launch-fails:kind%d" % m["kind"], "start returned %s for a valid launch" % s.get("ret"))
        return vs, obs, True
    if s.get("hello") != 1 or not idents:
        V(vs, "C03", "program-not-run:kind%d" % m["kind"], "start succeeded but the helper never reported")
        return vs, obs, True
    obs["launches_checked"] += 1
    obs["kinds"].add(m["kind"])
    idt = idents[0]
    # argv
    got_args = idt["arg"][1:]
    if m["args"] is None:
        obs["fork_mode_children"] = obs.get("fork_mode_children", 0) + 1
    else:
        obs["args_compared"] += len(m["args"])
    if m["args"] is not None and got_args != m["args"]:
        n = min(len(got_args), len(m["args"]))
        first = next((i for i in range(n) if got_args[i] != m["args"][i]), n)
        V(vs, "C03", "argv-differs", "argument %d differs (got %d args, expected %d): got %s expected %s" % (
            first, len(got_args), len(m["args"]), got_args[first][:60] if first < len(got_args) else None,
            m["args"][first][:60] if first < len(m["args"]) else None))
    # environment
    envset = [l for l in log.lines if "env_set" in l]
    if envset:
        parent = envset[0]["env_set"]
    else:
        parent = None  # the worker's own environment: only the tail can be compared
    extra = m.get("extra") or []
    if m.get("path_added"):
        parent = None
    got_env = idt["env"]
    if m["behavior"] == 1:
        obs["env_entries_compared"] += len(extra)
        if got_env != extra:
            V(vs, "C03", "env-empty-behaviour-differs", "environment is %d entries, expected exactly the %d extra entries" % (len(got_env), len(extra)))
    else:
        if parent is not None:
            obs["env_entries_compared"] += len(parent) + len(extra)
            if got_env != parent + extra:
                V(vs, "C03", "env-extend-differs", "environment (%d entries) is not parent (%d) followed by extra (%d)" % (len(got_env), len(parent), len(extra)))
        else:
            obs["env_entries_compared"] += len(extra)
            if extra and got_env[-len(extra):] != extra:
                V(vs, "C03", "env-extend-tail-differs", "the environment does not end with the extra entries")
            if len(got_env) < len(extra):
                V(vs, "C03", "env-extend-tail-differs", "environment shorter than the extra entries")
    # working directory
    cwd = bytes.fromhex(idt["cwd"][0]).decode("utf-8", "replace") if idt["cwd"] else None
    exe = bytes.fromhex(hellos[0]["exe"]).decode("utf-8", "replace") if hellos else ""
    casedir = None
    if exe and "/h0/" in exe:
        casedir = exe.split("/h0/")[0]
    if "wd_rel" in m:
        if cwd is None or not cwd.endswith("/" + m["wd_rel"]):
            V(vs, "C03", "wrong-working-directory", "cwd %s, requested %s" % (cwd, m["wd_rel"]))
    elif "wd_abs" in m:
        if cwd != m["wd_abs"]:
            V(vs, "C03", "wrong-working-directory", "cwd %s, requested %s" % (cwd, m["wd_abs"]))
    elif m.get("wd_is_child_dir"):
        if cwd is None or not cwd.endswith("/h0/wd"):
            V(vs, "C03", "wrong-working-directory", "cwd %s, requested .../h0/wd" % cwd)
    if m.get("root_cwd"):
        obs["root_cwd_cases"] = obs.get("root_cwd_cases", 0) + 1
    # program resolution
    if "expect_tag" in m:
        if m["kind"] == 7:
            obs["path_searches"] += 1
        else:
            obs["relative_programs"] += 1
        tag = hellos[0].get("tag") if hellos else None
        if tag != m["expect_tag"]:
            V(vs, "C03", "wrong-program-resolved:kind%d" % m["kind"], "the program that ran is tagged '%s' (%s); the relative name designates the one tagged '%s' from the parent's working directory" % (tag, exe, m["expect_tag"]))
    return vs, obs, True


def judge_c05_configs(case, log):
    """C05 over every redirect configuration of C10: ledger, descriptor table, user objects."""
    vs = []
    obs = {"config_ledger_checks": 0}
    if common_fail("C05", log, vs):
        return vs, obs, False
    fin = log.fin
    if fin.get("hang"):
        return vs, obs, False
    obs["config_ledger_checks"] = 1
    cls = "closed-std" if case.meta["mask"] else ("after-failed-start" if case.meta.get("after_failed_start") else "all-open")
    if fin.get("double_close"):
        V(vs, "C05", "double-close:config:%s" % cls, "descriptor closed twice (config %s)" % case.meta["opts"])
    if fin.get("foreign_close"):
        V(vs, "C05", "foreign-close:config:%s" % cls, "close of a descriptor the library did not open (config %s)" % case.meta["opts"])
    if fin.get("unknown_free"):
        V(vs, "C05", "unknown-free:config:%s" % cls, "free of a pointer the library did not allocate (config %s)" % case.meta["opts"])
    if fin.get("owned_fds"):
        V(vs, "C05", "fd-leak:config:%s" % cls, "descriptors still owned after destroy: %s (config %s)" % (fin["owned_fds"], case.meta["opts"]))
    if fin.get("live_allocs"):
        V(vs, "C05", "memory-leak:config:%s" % cls, "%d allocations never released (config %s)" % (fin["live_allocs"], case.meta["opts"]))
    mask = case.meta["mask"]
    snap0 = [l for l in log.lines if l.get("snap") == 0]
    if snap0:
        before = sorted((f[0], f[1], f[2]) for f in snap0[0]["fds"] if not (f[0] < 3 and mask & (1 << f[0])))
        after = sorted((f[0], f[1], f[2]) for f in fin["fds"])
        if before != after:
            V(vs, "C05", "fd-table-changed:config:%s" % cls, "descriptor table before %s, after %s (config %s)" % (before, after, case.meta["opts"]))
    for h, st, kind, isopen in fin.get("user_objs", []):
        if kind == "std" and mask & (1 << st):
            continue
        if not isopen:
            V(vs, "C05", "user-object-closed:%s:config:%s" % (kind, cls), "the %s for stream %d is no longer open (config %s)" % (kind, st, case.meta["opts"]))
    if fin.get("kids") != "none":
        V(vs, "C05", "process-left:config:%s" % cls, "child left after wait + destroy (%s)" % fin.get("kids"))
    return vs, obs, True


class IdentEngine:
    name = "ident"

    def cases(self, prop, tier, seed):
        return {"C10": gen_c10, "C11": gen_c11, "C03": gen_c03, "C05": gen_c10}[prop](tier, seed)

    def judge(self, prop, case, log):
        return {"C10": judge_c10, "C11": judge_c11, "C03": judge_c03, "C05": judge_c05_configs}[prop](case, log)


ENGINE = IdentEngine()
