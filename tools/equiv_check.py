#!/usr/bin/env python3
"""Run the checks against every behaviour-preserving refactoring under equiv/ (scratch worktree of
/repo HEAD + patch, like tools/mutant.py eval). A VIOLATION on any of them is a false alarm of the
machinery; exit 2 (inconclusive: a workload precondition no longer met) is reported but tolerated.

  equiv_check.py [-j N] [--props C01,C02,...] [name ...]"""
import json
import os
import subprocess
import sys
from concurrent.futures import ThreadPoolExecutor

VERIF = os.path.dirname(os.path.dirname(os.path.abspath(__file__)))
ALL = ["C%02d" % i for i in range(1, 21)]


def one(args):
    name, props = args
    d = os.path.join(VERIF, "equiv", name)
    r = subprocess.run([sys.executable, os.path.join(VERIF, "tools", "mutant.py"), "eval", os.path.join(d, "patch.diff"),
                        "q-" + name] + props, stdout=subprocess.PIPE, stderr=subprocess.DEVNULL, text=True)
    try:
        ev = json.loads(r.stdout[r.stdout.find("{"):])
    except ValueError:
        return name, {"error": r.stdout[-300:]}
    return name, ev


def main():
    args = sys.argv[1:]
    jobs, props = 3, ALL
    while args and args[0].startswith("-"):
        if args[0] == "-j":
            jobs = int(args[1])
        elif args[0] == "--props":
            props = args[1].split(",")
        args = args[2:]
    names = args or sorted(os.listdir(os.path.join(VERIF, "equiv")))
    names = [n for n in names if os.path.isdir(os.path.join(VERIF, "equiv", n))]
    alarms = 0
    summary = {}
    with ThreadPoolExecutor(jobs) as ex:
        for name, ev in ex.map(one, [(n, props) for n in names]):
            if "error" in ev:
                print("%-4s ERROR %s" % (name, ev["error"]))
                alarms += 1
                continue
            viol = {k: [x for x in v["keys"] if "false-success@" not in x][:4] for k, v in ev.items() if v["rc"] == 1}
            inc = [k for k, v in ev.items() if v["rc"] == 2]
            summary[name] = {"violations": viol, "inconclusive": inc, "quiet": len(ev) - len(viol) - len(inc)}
            print("%-4s quiet=%d inconclusive=%s FALSE-ALARMS=%s" % (name, summary[name]["quiet"], inc, viol or "none"))
            alarms += len(viol)
            sys.stdout.flush()
    path = os.path.join(VERIF, "equiv", "last_run.json")
    try:
        merged = json.load(open(path))
    except (OSError, ValueError):
        merged = {}
    for n, v in summary.items():
        merged.setdefault(n, {"violations": {}, "inconclusive": [], "quiet": 0, "props": []})
        old = merged[n]
        done = set(old.get("props", []))
        old["props"] = sorted(done | set(props))
        if set(props) >= done:
            old.update({k: v[k] for k in ("violations", "inconclusive", "quiet")})
        else:
            old["violations"].update(v["violations"])
            old["inconclusive"] = sorted(set(old["inconclusive"]) | set(v["inconclusive"]))
    json.dump(merged, open(path, "w"), indent=1, sort_keys=True)
    return 1 if alarms else 0


if __name__ == "__main__":
    sys.exit(main())
