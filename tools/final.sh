#!/bin/bash
# Refresh what is committed: every quick check against /repo itself (seed 1), evidence validated
# against the schema, MANIFEST regenerated and validated.  Exit 1 if anything is not exit 0 / valid.
cd "$(dirname "$0")/.."
rc=0
python3 lib/mkmanifest.py >/dev/null || rc=1
for p in C01 C02 C03 C04 C05 C06 C07 C08 C09 C10 C11 C12 C13 C14 C15 C16 C17 C18 C19 C20; do
  o=$(VERIF_SEED=1 bin/check $p --tier quick 2>&1); r=$?
  echo "$p rc=$r $(echo "$o" | grep -v '^KNOWN' | tail -1 | cut -c1-100)"
  [ $r -ne 0 ] && rc=1
done
python3-vt - <<'PY' || rc=1
import json, jsonschema, glob, sys
ok = True
m = json.load(open('/verif/MANIFEST.json'))
jsonschema.validate(m, json.load(open('/root/.vp/MANIFEST.schema.json')))
es = json.load(open('/root/.vp/EVIDENCE.schema.json'))
for f in sorted(glob.glob('/verif/evidence/*.json')):
    e = json.load(open(f))
    jsonschema.validate(e, es)
    if e.get('tier') != 'quick' or e.get('violations'):
        print('evidence not from a clean quick run:', f); ok = False
print('manifest + %d evidence files valid' % len(glob.glob('/verif/evidence/*.json')))
sys.exit(0 if ok else 1)
PY
exit $rc
