#!/usr/bin/env python3
"""Print the markdown table of seeded changes (from seeded/*/meta.json)."""
import glob, json, os
rows = []
for f in sorted(glob.glob(os.path.join(os.path.dirname(os.path.dirname(os.path.abspath(__file__))), "seeded", "*", "meta.json"))):
    m = json.load(open(f))
    det = []
    for k, v in m["detection"].items():
        if v["exit"] == 1:
            keys = [x.split("/", 2)[-1] for x in v["violation_keys"][:2]]
            det.append("**%s** (%s)" % (k, ", ".join(keys)))
        else:
            det.append("%s: not caught" % k)
    src = "agent" if m["source"].startswith("fresh") else "hand"
    rows.append("| %s | %s | %s | %s | %s |" % (m["id"], ",".join(m["breaks_property"]), src, m["needs_to_manifest"].replace("|", "/")[:170], "; ".join(det)))
print("| seeded change | breaks | by | needs to manifest | caught by (first violation keys) |")
print("|---|---|---|---|---|")
print("\n".join(rows))
