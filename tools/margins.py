#!/usr/bin/env python3
"""How much slack do the "observed at least N" thresholds of the quick checks have?

  margins.py <seed> [<seed> ...]

Runs every scenario-based quick check once per seed (evidence goes to a scratch directory), and
prints, per threshold, required / minimum observed over the seeds. A ratio close to 1 means the
check may turn INCONCLUSIVE (exit 2) on an unlucky seed although nothing is wrong."""
import json
import os
import shutil
import subprocess
import sys
import tempfile

VERIF = os.path.dirname(os.path.dirname(os.path.abspath(__file__)))
sys.path.insert(0, os.path.join(VERIF, "lib"))
import registry  # noqa: E402

seeds = sys.argv[1:] or ["1", "2", "3"]
out = tempfile.mkdtemp(prefix="margins.")
env = dict(os.environ, VERIF_OUT=out)
worst = {}
for pid, chk in sorted(registry.CHECKS.items()):
    mo = chk.get("min_obs_quick")
    if not mo:
        continue
    for sd in seeds:
        env["VERIF_SEED"] = sd
        r = subprocess.run([os.path.join(VERIF, "bin", "check"), pid], env=env, cwd=VERIF, stdout=subprocess.PIPE, stderr=subprocess.STDOUT, text=True)
        if r.returncode != 0:
            print("%s seed=%s rc=%d %s" % (pid, sd, r.returncode, r.stdout.strip().splitlines()[-1][:200]))
        try:
            obs = json.load(open(os.path.join(out, "evidence", pid + ".json")))["coverage"]["observed"]
        except (OSError, ValueError, KeyError):
            continue
        for k, need in mo.items():
            v = obs.get(k, 0)
            if isinstance(v, (int, float)):
                w = worst.setdefault((pid, k), [need, v])
                w[1] = min(w[1], v)
shutil.rmtree(out, ignore_errors=True)
for (pid, k), (need, got) in sorted(worst.items(), key=lambda kv: kv[1][1] / max(1, kv[1][0])):
    ratio = got / max(1, need)
    if ratio < 2.0:
        print("%s %-28s required %-8d min observed %-8d ratio %.2f%s" % (pid, k, need, got, ratio, "  <-- tight" if ratio < 1.3 else ""))
print("checked %d thresholds over seeds %s" % (len(worst), " ".join(seeds)))
