#!/bin/sh
# Coverage survey: which library lines the quick (or thorough) workloads never drive.
# COV_CHILD=1 adds the forked child's counters (then process_start's numbers are approximate).
# Not a check; a guide for where the monitors are blind.  Scratch output in $1 (default
# /tmp/cov), removed by the caller.  Usage: tools/coverage.sh [dir] [tier] [ids...]
set -u
D=${1:-/tmp/cov}; T=${2:-quick}
[ $# -ge 2 ] && shift 2 || shift $#
IDS=${*:-C01 C02 C03 C04 C05 C06 C07 C08 C09 C10 C11 C12 C13 C14 C15 C16 C17 C19 C20}
cd "$(dirname "$0")/.." || exit 2
rm -rf "$D"; mkdir -p "$D"
export VERIF_COV=1 VERIF_BUILD="$D/build" VERIF_OUT="$D/out"
[ -n "${COV_CHILD:-}" ] && export VERIF_COV_CHILD=1
for p in $IDS; do bin/check "$p" --tier "$T" 2>&1 | tail -1 | cut -c1-110; done
for cfg in "$D"/build/*/lib; do
  [ -d "$cfg" ] || continue
  ( cd "$cfg" && for f in *.gcda; do [ -f "$f" ] && gcov -b -c -o . "$f" >/dev/null 2>&1; done
    for f in *.c.gcov; do [ -f "$f" ] && echo "$cfg/$f: $(grep -c '#####' "$f") unexecuted of $(grep -cE '^ +[0-9#]+\*?:' "$f")"; done )
done
