#!/usr/bin/env python3
"""keep_mutant.py <prop> <k> <slug> <breaks-props comma list> "<needs>"  - copy a confirmed mutant into /verif/seeded/"""
import json, os, shutil, sys
prop, k, slug, breaks, needs = sys.argv[1:6]
src = "%s/%s/out/%s" % (os.environ.get("MUTDIR", "/tmp/mut"), prop, k)
dst = "/verif/seeded/%s-%s" % (prop, slug)
os.makedirs(dst, exist_ok=True)
for f in os.listdir(src):
    full = os.path.join(src, f)
    if os.path.isdir(full):
        if f in ("stub", "harness", "include", "helpers"):   # headers / helper sources the demo needs
            shutil.copytree(full, os.path.join(dst, f), dirs_exist_ok=True)
    elif f in ("patch.diff", "README.md", "BUILD") or f.startswith("demo.") or f.endswith((".c", ".cpp", ".sh", ".h")):
        shutil.copy(full, dst)
ver = json.load(open("%s/%s.%s.verify.json" % (os.environ.get("MUTDIR", "/tmp/mut"), prop, k)))
ev = json.load(open("%s/%s.%s.eval.json" % (os.environ.get("MUTDIR", "/tmp/mut"), prop, k)))
meta = {
    "id": "%s-%s" % (prop, slug),
    "breaks_property": breaks.split(","),
    "source": os.environ.get("MUTANT_SOURCE", "fresh sub-agent given only the property text and a scratch worktree"),
    "needs_to_manifest": needs,
    "confirmed_by_me": {
        "scratch_worktree": "git worktree of /repo HEAD under /tmp/mv, removed afterwards (tools/mutant.py verify)",
        "baseline_builds_and_10_tests_pass": ver.get("baseline_tests"),
        "demo_passes_on_baseline": ver.get("demo_base_rc") == 0,
        "mutant_builds_and_10_tests_pass": ver.get("mutant_tests"),
        "demo_fails_on_mutant": ver.get("demo_mutant_rc") not in (0, None),
        "demo_build": ver.get("demo_cmd", "").replace("/tmp/mv/v-%s-%s" % (prop, k), "<worktree>"),
    },
    "detection": {kk: {"exit": v["rc"], "violation_keys": v["keys"][:6]} for kk, v in ev.items()},
    "how_run": "tools/mutant.py eval <patch> <name> <props>: scratch worktree with the patch, bin/check with VERIF_REPO pointing at it",
}
json.dump(meta, open(os.path.join(dst, "meta.json"), "w"), indent=1)
print(dst, {kk: v["rc"] for kk, v in ev.items()})
