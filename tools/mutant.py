#!/usr/bin/env python3
"""Mutant handling.

  mutant.py verify <dir with patch.diff, demo.c|demo.cpp, README.md> <name>
      In a scratch worktree of /repo (removed afterwards): baseline builds, 10/10 tests,
      demo passes; with the patch: builds, 10/10 tests, demo fails.
  mutant.py eval <patch.diff> <name> <prop> [<prop> ...] [--thorough]
      Scratch worktree with the patch applied; runs bin/check for the properties against it
      (VERIF_REPO / VERIF_BUILD / VERIF_OUT point away from /repo and /verif's own output).
"""
import json
import os
import re
import shutil
import subprocess
import sys

VERIF = os.path.dirname(os.path.dirname(os.path.abspath(__file__)))
SCR = "/tmp/mv"


def sh(cmd, **kw):
    return subprocess.run(cmd, shell=True, stdout=subprocess.PIPE, stderr=subprocess.STDOUT, text=True, **kw)


def worktree(name):
    d = os.path.join(SCR, name)
    sh("git -C /repo worktree remove --force %s" % d)
    shutil.rmtree(d, ignore_errors=True)
    os.makedirs(SCR, exist_ok=True)
    r = sh("git -C /repo worktree add --detach %s HEAD" % d)
    if r.returncode:
        raise SystemExit("worktree: " + r.stdout)
    return d


def drop(name):
    d = os.path.join(SCR, name)
    sh("git -C /repo worktree remove --force %s" % d)
    shutil.rmtree(d, ignore_errors=True)


def build_and_test(d):
    r = sh("cmake -G Ninja -S %s -B %s/_b -DCMAKE_BUILD_TYPE=RelWithDebInfo -DREPROC_TEST=ON -DREPROC++=ON >/dev/null 2>&1; "
           "cmake --build %s/_b 2>&1 | tail -3 && ctest --test-dir %s/_b -j8 --timeout 120 2>&1 | tail -4" % (d, d, d, d))
    ok = "100% tests passed" in r.stdout
    return ok, r.stdout[-600:]


def demo_cmd(src, d):
    """Standard build line for a demo: wraps are derived from the __wrap_ symbols it defines."""
    if os.path.exists(os.path.join(src, "BUILD")):
        return open(os.path.join(src, "BUILD")).read().strip().replace("{d}/_build", "{d}/_b").replace("{d}", d)
    cpp = os.path.exists(os.path.join(src, "demo.cpp"))
    demo = "demo.cpp" if cpp else "demo.c"
    text = open(os.path.join(src, demo)).read()
    for f in os.listdir(src):
        if f.endswith(".h"):
            text += open(os.path.join(src, f)).read()
    wraps = sorted(set(re.findall(r"\b__wrap_(\w+)\s*\(", text)))
    cc = "g++ -std=c++11" if cpp else "gcc -std=gnu11"
    libs = "%s/_b/reproc/lib/libreproc.a" % d
    inc = "-I%s/reproc/include" % d
    if cpp:
        libs = "%s/_b/reproc++/lib/libreproc++.a " % d + libs
        inc += " -I%s/reproc++/include" % d
    return "%s -O1 -D_GNU_SOURCE %s %s %s -lpthread -ldl %s -o demo.bin" % (
        cc, demo, inc, libs, " ".join("-Wl,--wrap=" + w for w in wraps))


def verify(src, name):
    d = worktree(name)
    res = {"name": name}
    try:
        ok, out = build_and_test(d)
        res["baseline_tests"] = ok
        work = os.path.join(d, "_demo")
        shutil.copytree(src, work)
        cmd = demo_cmd(src, d)
        res["demo_cmd"] = cmd
        if not cmd:
            res["error"] = "no demo build command found in README"
            return res
        # helper files some demos need are built by extra README lines; run every gcc line
        r = sh(cmd, cwd=work)
        res["demo_build_base"] = r.returncode == 0
        if r.returncode:
            res["error"] = r.stdout[-800:]
            return res
        r = sh("timeout 120 ./demo.bin", cwd=work)
        res["demo_base_rc"] = r.returncode
        r = sh("git -C %s apply %s" % (d, os.path.join(src, "patch.diff")))
        res["patch_applies"] = r.returncode == 0
        if r.returncode:
            res["error"] = r.stdout[-500:]
            return res
        ok, out = build_and_test(d)
        res["mutant_tests"] = ok
        if not ok:
            res["mutant_tests_out"] = out
        r = sh(cmd, cwd=work)
        r = sh("timeout 120 ./demo.bin", cwd=work)
        res["demo_mutant_rc"] = r.returncode
        res["demo_mutant_out"] = r.stdout[-400:]
        res["confirmed"] = bool(res["baseline_tests"] and res["demo_base_rc"] == 0 and res["mutant_tests"] and res["demo_mutant_rc"] != 0)
        return res
    finally:
        drop(name)


def evaluate(patch, name, props, thorough=False):
    d = worktree(name)
    out = {}
    try:
        r = sh("git -C %s apply %s" % (d, patch))
        if r.returncode:
            return {"error": "patch does not apply: " + r.stdout[-300:]}
        env = dict(os.environ)
        env["VERIF_REPO"] = d
        env["VERIF_BUILD"] = "/tmp/mvb/%s" % name
        env["VERIF_OUT"] = "/tmp/mvo/%s" % name
        os.makedirs(env["VERIF_OUT"], exist_ok=True)
        for p in props:
            for tier in (["quick", "thorough"] if thorough else ["quick"]):
                r = subprocess.run([os.path.join(VERIF, "bin", "check"), p, "--tier", tier], stdout=subprocess.PIPE,
                                   stderr=subprocess.STDOUT, text=True, env=env, cwd=VERIF)
                keys = sorted(set(re.findall(r"key=(\S+)", r.stdout)))
                out["%s/%s" % (p, tier)] = {"rc": r.returncode, "keys": keys[:12],
                                             "tail": r.stdout.strip().splitlines()[-1][:200] if r.stdout.strip() else ""}
                if r.returncode == 1:
                    break
        return out
    finally:
        drop(name)
        shutil.rmtree("/tmp/mvb/%s" % name, ignore_errors=True)
        shutil.rmtree("/tmp/mvo/%s" % name, ignore_errors=True)


if __name__ == "__main__":
    if sys.argv[1] == "verify":
        print(json.dumps(verify(sys.argv[2], sys.argv[3]), indent=1))
    elif sys.argv[1] == "eval":
        th = "--thorough" in sys.argv
        args = [a for a in sys.argv[2:] if a != "--thorough"]
        print(json.dumps(evaluate(args[0], args[1], args[2:], th), indent=1))
