#!/bin/bash
# soak.sh <tier> <seed> [<seed> ...] : run every check for each seed; evidence/replays go to a scratch dir.
# Prints one line per (check, seed); exit 1 if any check did not exit 0.
tier=$1; shift
cd "$(dirname "$0")/.."
out=$(mktemp -d /tmp/soak.XXXXXX)
export VERIF_OUT=$out
export VERIF_BUILD=${VERIF_BUILD:-/tmp/soak-build.$$}
rc=0
for seed in "$@"; do
  for p in C01 C02 C03 C04 C05 C06 C07 C08 C09 C10 C11 C12 C13 C14 C15 C16 C17 C18 C19 C20; do
    o=$(VERIF_SEED=$seed bin/check $p --tier $tier 2>&1); r=$?
    echo "seed=$seed $p rc=$r $(echo "$o" | grep -v '^KNOWN' | tail -1 | cut -c1-160)"
    if [ $r -ne 0 ]; then rc=1; echo "$o" | grep -v '^KNOWN' | tail -8 | cut -c1-300; cp -r $out/replays /tmp/soak-replays.$seed.$p 2>/dev/null; fi
  done
done
rm -rf "$out" "$VERIF_BUILD"
exit $rc
