#!/usr/bin/env python3
"""Re-evaluate every seeded change with the current machinery and rewrite meta.json["detection"].

  refresh_mutants.py [-j N] [name-prefix ...]

For each seeded/<id>: scratch worktree of /repo HEAD + patch.diff (tools/mutant.py eval), the
quick check of every property listed under breaks_property (first) and of those already listed
under detection. Prints one line per change; exit 1 if a change is caught by none of them."""
import json
import os
import subprocess
import sys
from concurrent.futures import ThreadPoolExecutor

VERIF = os.path.dirname(os.path.dirname(os.path.abspath(__file__)))


def one(d):
    name = os.path.basename(d)
    meta = json.load(open(os.path.join(d, "meta.json")))
    props = list(meta["breaks_property"])
    for k in meta.get("detection", {}):
        p = k.split("/")[0]
        if p not in props:
            props.append(p)
    r = subprocess.run([sys.executable, os.path.join(VERIF, "tools", "mutant.py"), "eval", os.path.join(d, "patch.diff"),
                        "r-" + name] + props, stdout=subprocess.PIPE, stderr=subprocess.DEVNULL, text=True)
    try:
        ev = json.loads(r.stdout[r.stdout.find("{"):])
    except ValueError:
        return name, None, "eval failed: " + r.stdout[-200:]
    if "error" in ev:
        return name, None, ev["error"][:200]
    det = {}
    for k, v in ev.items():
        keys = [x.rstrip(",") for x in v["keys"] if "false-success@" not in x]   # known findings of the base tree
        det[k] = {"exit": v["rc"], "violation_keys": keys[:6]}
    meta["detection"] = det
    json.dump(meta, open(os.path.join(d, "meta.json"), "w"), indent=1)
    caught = [k for k, v in det.items() if v["exit"] == 1]
    return name, caught, ""


def main():
    args = sys.argv[1:]
    jobs = 3
    if args[:1] == ["-j"]:
        jobs = int(args[1])
        args = args[2:]
    dirs = sorted(os.path.join(VERIF, "seeded", n) for n in os.listdir(os.path.join(VERIF, "seeded"))
                  if os.path.isdir(os.path.join(VERIF, "seeded", n)) and (not args or any(n.startswith(a) for a in args)))
    bad = 0
    with ThreadPoolExecutor(jobs) as ex:
        for name, caught, err in ex.map(one, dirs):
            if caught is None:
                print("%-60s ERROR %s" % (name, err))
                bad += 1
            elif not caught:
                print("%-60s NOT CAUGHT" % name)
                bad += 1
            else:
                print("%-60s caught by %s" % (name, ", ".join(caught)))
            sys.stdout.flush()
    return 1 if bad else 0


if __name__ == "__main__":
    sys.exit(main())
