#pragma once
#include <stdint.h>
#include <stddef.h>

// Position code: byte i of logical stream s. Any loss, duplication or reordering
// shifts the sequence and is visible at a known offset.
static inline uint8_t poscode(unsigned s, uint64_t i)
{
  uint32_t x = (uint32_t) i * 0x9E3779B1u + (uint32_t) (i >> 32) * 0x7F4A7C15u +
               s * 0x85EBCA6Bu + 0x1234567u;
  x ^= x >> 15;
  x *= 0x2C1B3C6Du;
  x ^= x >> 12;
  x *= 0x297A2D39u;
  x ^= x >> 15;
  return (uint8_t) x;
}

// framed messages over a SOCK_STREAM control socket: u32 length (LE) + payload
int msg_send(int fd, const void *buf, uint32_t n);
// returns malloc'd NUL-terminated payload, sets *n; NULL on EOF/error
char *msg_recv(int fd, uint32_t *n);
