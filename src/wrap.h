// Link-time interposition layer between the reproc library objects and libc.
// The library objects are partially linked with `ld -r --wrap=<sym>` so that only
// calls made *by the library* arrive here; the harness calls libc directly.
#pragma once
#define _GNU_SOURCE
#include <stdint.h>
#include <stddef.h>
#include <sys/types.h>

enum wfn {
  F_fork, F_kill, F_waitpid, F_pipe, F_close, F_dup2, F_fcntl, F_open, F_read,
  F_write, F_poll, F_malloc, F_calloc, F_realloc, F_free, F_strdup, F_chdir,
  F_getcwd, F_getrlimit, F_execvp, F_sigaction, F_sigmask, F_sigemptyset,
  F_sigfillset, F_fileno, F__exit, F_clock_gettime, F_other, F_anyalloc, F_N
};
extern const char *const wfn_name[F_N];

// trace record flags
enum {
  TF_INJECTED = 1,   // a planned fault fired here
  TF_WAITED = 2,     // the call had to advance virtual time before it could complete
  TF_BADTARGET = 4,  // kill/waitpid aimed at something that is not a live child of the library
  TF_FOREIGN = 8,    // close/free of something the library does not own
  TF_NOTFWD = 16,    // signal recorded but not forwarded
  TF_NONBLOCK = 32,  // the fd of this read/write had O_NONBLOCK
};

typedef struct {
  uint32_t seq;
  int32_t pid;
  uint8_t side;  // 0 parent, 1 library-forked child before exec
  uint8_t fn;
  uint8_t flags;
  uint8_t pad;
  int32_t op;    // index of the API call in progress (-1: none)
  int32_t err;
  int32_t k;     // per-(side,fn) call index
  long a[3];
  long ret;
  int64_t vt0, vt1;
} trec;

#define W_MAXTR 196608
#define W_MAXFAULT 4
#define W_MAXCHILD 512

typedef struct {
  uint8_t side, fn;
  int k;       // k-th call (0-based) of fn on that side
  int err;     // errno to report
  int fired;
} wfault;

typedef struct {
  int pid;
  int state;  // 1 live (forked, not reaped by the library), 2 reaped by the library
} wchild;

typedef struct {
  // trace
  volatile uint32_t ntr;
  volatile uint32_t overflow;
  volatile uint32_t runaway;   // 1 + function id of the call that exhausted the child-side call budget
  trec tr[W_MAXTR];
  // faults (counters are per process; child side restarts at 0 after fork)
  int nfault;
  wfault fault[W_MAXFAULT];
  volatile int faults_disabled;  // set by the harness once the start under test has returned
  // children forked by the library in this runner
  volatile int nchild;
  wchild child[W_MAXCHILD];
  // last execvp program seen on the child side
  char exec_path[8192];
  int exec_seen;
  // monitors
  volatile int n_badtarget, n_foreign_close, n_double_close, n_unknown_free;
  // in-child (fork mode) notes
  volatile int inchild_ret, inchild_done;
  volatile int inchild_n, inchild_res[12];   // results of API calls made on the child side of a fork-mode start
  // delay injection seed (mt engine)
  uint32_t delay_seed;
} wshared;

extern wshared *W;

// configuration (process-local)
extern int w_vclock;        // virtual clock + scheduler active
extern int w_ledger;        // fd/heap ownership ledger active (parent side)
extern int w_delays;        // inject random delays (mt engine)
extern int w_in_start;      // harness sets this around reproc_start (real-time blocking allowed)
extern int w_cur_op;        // index of API op in progress
extern int64_t w_vnow;      // virtual ms since case start
extern int64_t w_epoch_ms;  // virtual epoch
extern int w_side;          // 0 parent, 1 lib child

// scheduler callbacks (virtual clock engines)
extern int64_t (*w_sched_next)(void);       // time of next event or INT64_MAX
extern int (*w_sched_run)(int64_t upto);    // run every event with t <= upto; returns progress made
extern void (*w_on_hang)(const char *what); // must not return
// kill reaction: return 1 if the wrapper should forward the signal itself now
extern int (*w_on_kill)(int pid, int sig);
extern void (*w_on_fork_child)(void);

void wrap_init(void);
void wrap_reset_case(void);
int wrap_add_fault(int side, int fn, int k, int err);
int wrap_add_fault_rel(int fn, int k, int err);
void wrap_heap_adopt(void *p);
int wrap_fn_by_name(const char *name);
int wrap_child_state(int pid);  // 0 unknown, 1 live, 2 reaped
// ledger queries (parent side)
int wrap_owned_fds(int *out, int max);
int wrap_live_allocs(void);
uint32_t wrap_trace_mark(void);
