// See wrap.h. Every __wrap_X below is reached only from the reproc library objects
// (they were partially linked with --wrap); the harness itself calls libc directly.
#define _GNU_SOURCE
#include "wrap.h"

#include <errno.h>
#include <fcntl.h>
#include <poll.h>
#include <pthread.h>
#include <sched.h>
#include <signal.h>
#include <stdarg.h>
#include <stdio.h>
#include <stdlib.h>
#include <string.h>
#include <sys/mman.h>
#include <sys/resource.h>
#include <sys/stat.h>
#include <sys/wait.h>
#include <time.h>
#include <unistd.h>

const char *const wfn_name[F_N] = {
  "fork", "kill", "waitpid", "pipe", "close", "dup2", "fcntl", "open", "read",
  "write", "poll", "malloc", "calloc", "realloc", "free", "strdup", "chdir",
  "getcwd", "getrlimit", "execvp", "sigaction", "sigmask", "sigemptyset",
  "sigfillset", "fileno", "_exit", "clock_gettime", "other", "anyalloc"
};

wshared *W;
int w_vclock, w_ledger, w_delays, w_in_start, w_cur_op = -1, w_side;
int64_t w_vnow, w_epoch_ms = 1700000000000LL;
int64_t (*w_sched_next)(void);
int (*w_sched_run)(int64_t upto);
void (*w_on_hang)(const char *what);
int (*w_on_kill)(int pid, int sig);
void (*w_on_fork_child)(void);

static int cnt[2][F_N];
static int spin_op = -3, spin_count;  // consecutive would-block results inside one API call (virtual-clock engines)
static int last_fork_op = -2;  // API op during which the library last forked (parent side)
static pthread_mutex_t child_mu = PTHREAD_MUTEX_INITIALIZER;
static __thread trec dummy_rec;   // where records go once the trace is full (per thread: several threads may be past the end at once)

// ---------------------------------------------------------------- ledger
#define MAXFD 65536
static uint8_t fd_owned[MAXFD];   // 1: open and owned by the library
static uint8_t fd_closed[MAXFD];  // 1: the library closed it and nothing re-acquired the number
#define HSZ (1 << 15)
static void *heap_tab[HSZ];
static int heap_live;

static void heap_add(void *p)
{
  if (!p) return;
  size_t h = ((uintptr_t) p >> 4) & (HSZ - 1);
  for (int i = 0; i < HSZ; i++) {
    size_t j = (h + (size_t) i) & (HSZ - 1);
    if (heap_tab[j] == NULL || heap_tab[j] == (void *) 1) {
      heap_tab[j] = p;
      heap_live++;
      return;
    }
  }
}

static int heap_del(void *p)
{
  size_t h = ((uintptr_t) p >> 4) & (HSZ - 1);
  for (int i = 0; i < HSZ; i++) {
    size_t j = (h + (size_t) i) & (HSZ - 1);
    if (heap_tab[j] == NULL) return 0;
    if (heap_tab[j] == p) {
      heap_tab[j] = (void *) 1;
      heap_live--;
      return 1;
    }
  }
  return 0;
}

static void fd_add(int fd)
{
  if (!w_ledger) return;  // the ledger belongs to the single-threaded engines
  if (fd >= 0 && fd < MAXFD) {
    fd_owned[fd] = 1;
    fd_closed[fd] = 0;
  }
}

int wrap_owned_fds(int *out, int max)
{
  int n = 0;
  for (int i = 0; i < MAXFD && n < max; i++)
    if (fd_owned[i]) out[n++] = i;
  return n;
}

int wrap_live_allocs(void) { return heap_live; }

#ifdef VERIF_COV
void __gcov_dump(void);
void __gcov_reset(void);
static int cov_child = -1;
#endif

// ---------------------------------------------------------------- basics
void wrap_init(void)
{
#ifdef VERIF_COV
  cov_child = getenv("VERIF_COV_CHILD") != NULL;  // read now: scenarios replace the environment
#endif
  W = mmap(NULL, sizeof(wshared), PROT_READ | PROT_WRITE,
           MAP_SHARED | MAP_ANONYMOUS, -1, 0);
  if (W == MAP_FAILED) {
    perror("mmap");
    _exit(97);
  }
}

void wrap_reset_case(void)
{
  W->ntr = 0;
  W->overflow = 0;
  W->runaway = 0;
  W->nfault = 0;
  W->faults_disabled = 0;
  W->nchild = 0;
  W->exec_seen = 0;
  W->n_badtarget = W->n_foreign_close = W->n_double_close = W->n_unknown_free = 0;
  W->inchild_done = 0;
  W->inchild_n = 0;
  memset(cnt, 0, sizeof cnt);
  memset(fd_owned, 0, sizeof fd_owned);
  memset(fd_closed, 0, sizeof fd_closed);
  memset(heap_tab, 0, sizeof heap_tab);
  heap_live = 0;
  w_vnow = 0;
  w_side = 0;
  w_cur_op = -1;
  last_fork_op = -2;
}

int wrap_fn_by_name(const char *name)
{
  for (int i = 0; i < F_N; i++)
    if (strcmp(name, wfn_name[i]) == 0) return i;
  return -1;
}

int wrap_add_fault(int side, int fn, int k, int err)
{
  if (W->nfault >= W_MAXFAULT) return -1;
  wfault *f = &W->fault[W->nfault++];
  f->side = (uint8_t) side;
  f->fn = (uint8_t) fn;
  f->k = k;
  f->err = err;
  f->fired = 0;
  return 0;
}

// Fault at the k-th call of fn *from now on* (parent side): the plan does not depend on how
// many such calls earlier API calls happened to make.
int wrap_add_fault_rel(int fn, int k, int err)
{
  return wrap_add_fault(0, fn, cnt[0][fn] + k, err);
}

// A heap block the caller hands over to the library (the string sink's contract: the library
// reallocates or frees it): from here on it is the library's, like one it allocated itself.
void wrap_heap_adopt(void *p)
{
  if (p && w_ledger) heap_add(p);
}

uint32_t wrap_trace_mark(void) { return W->ntr; }

int wrap_child_state(int pid)
{
  int st = 0;
  pthread_mutex_lock(&child_mu);
  for (int i = 0; i < W->nchild; i++)
    if (W->child[i].pid == pid) st = W->child[i].state;  // last entry wins (pid reuse)
  pthread_mutex_unlock(&child_mu);
  return st;
}

static void child_set(int pid, int state)
{
  pthread_mutex_lock(&child_mu);
  if (state == 1) {
    if (W->nchild >= W_MAXCHILD) {
      // table full: drop the entries of children that were reaped long ago
      int n = 0;
      for (int i = 0; i < W->nchild; i++)
        if (W->child[i].state == 1) W->child[n++] = W->child[i];
      W->nchild = n;
    }
    if (W->nchild < W_MAXCHILD) {
      W->child[W->nchild].pid = pid;
      W->child[W->nchild].state = 1;
      W->nchild++;
    }
  } else {
    for (int i = W->nchild - 1; i >= 0; i--)
      if (W->child[i].pid == pid) {
        W->child[i].state = state;
        break;
      }
  }
  pthread_mutex_unlock(&child_mu);
}

static __thread uint32_t dl_state;
static void delay(void)
{
  if (!w_delays) return;
  if (dl_state == 0)
    dl_state = W->delay_seed * 2654435761u + (uint32_t) (uintptr_t) &dl_state;
  dl_state ^= dl_state << 13;
  dl_state ^= dl_state >> 17;
  dl_state ^= dl_state << 5;
  uint32_t r = dl_state & 15;
  if (r < 4)
    sched_yield();
  else if (r < 6)
    usleep((dl_state >> 8) % 200);
}

static int next_k(int fn)
{
  return __atomic_fetch_add(&cnt[w_side][fn], 1, __ATOMIC_RELAXED);
}

static __thread int tidx;
static int tidx_next;

// A forked child makes a bounded number of library-level calls before it execs or exits
// (the descriptor-closing loop dominates: the limit here is 20000 descriptors at most).
// Far beyond that is a loop that will not end in any useful time: a step-count verdict,
// not a wall-clock one.
#define W_CHILD_BUDGET 400000u
static uint32_t w_child_calls;

static trec *rec(int fn, int k, long a0, long a1, long a2)
{
  if (w_side == 1 && ++w_child_calls > W_CHILD_BUDGET) {
    __atomic_store_n(&W->runaway, (uint32_t) fn + 1, __ATOMIC_RELAXED);
    _exit(98);
  }
  if (!tidx) tidx = __atomic_fetch_add(&tidx_next, 1, __ATOMIC_RELAXED) + 1;
  uint32_t i = __atomic_fetch_add(&W->ntr, 1, __ATOMIC_RELAXED);
  if (i >= W_MAXTR) {
    __atomic_store_n(&W->overflow, 1, __ATOMIC_RELAXED);
    __atomic_store_n(&W->ntr, W_MAXTR, __ATOMIC_RELAXED);
    return &dummy_rec;
  }
  trec *t = &W->tr[i];
  t->seq = i;
  t->pid = getpid();
  t->side = (uint8_t) w_side;
  t->fn = (uint8_t) fn;
  t->flags = 0;
  t->pad = (uint8_t) tidx;
  t->k = k;
  t->op = w_cur_op;
  t->err = 0;
  t->a[0] = a0;
  t->a[1] = a1;
  t->a[2] = a2;
  t->ret = 0;
  t->vt0 = t->vt1 = w_vnow;
  return t;
}

// Returns the errno to inject for the k-th call of fn on this side, or 0.
static int fault_for(int fn, int k, trec *t)
{
  if (W->faults_disabled) return 0;
  for (int i = 0; i < W->nfault; i++) {
    wfault *f = &W->fault[i];
    if (f->side == w_side && f->fn == fn && f->k == -1) {  // k = -1: every call fails
      t->flags |= TF_INJECTED;
      t->err = f->err;
      f->fired = 1;
      return f->err;
    }
    if (f->side == w_side && f->fn == fn && f->k == k && !f->fired) {
      f->fired = 1;  // one shot (shared memory: a later child of the same case does not re-fire it)
      t->flags |= TF_INJECTED;
      t->err = f->err;
      return f->err;
    }
  }
  return 0;
}

static void fin(trec *t, long r)
{
  int e = errno;
  t->ret = r;
  t->err = r < 0 ? e : 0;
  t->vt1 = w_vnow;
  errno = e;
}

static void hang(const char *what)
{
  if (w_on_hang) w_on_hang(what);
  fprintf(stderr, "verif: HANG in %s with no hang handler\n", what);
  _exit(96);
}

// Advance virtual time to the next scheduled event; hang if there is none.
static void vwait_step(const char *what, trec *t)
{
  int64_t nx = w_sched_next ? w_sched_next() : INT64_MAX;
  if (nx == INT64_MAX) hang(what);
  t->flags |= TF_WAITED;
  if (nx > w_vnow) w_vnow = nx;
  w_sched_run(w_vnow);
}

// ---------------------------------------------------------------- process
pid_t __wrap_fork(void)
{
  int k = next_k(F_fork);
  trec *t = rec(F_fork, k, 0, 0, 0);
  int e = fault_for(F_fork, k, t);
  if (e) {
    t->ret = -1;
    errno = e;
    return -1;
  }
  delay();
  pid_t p = fork();
  if (p == 0) {
    w_side = 1;
#ifdef VERIF_COV
    __gcov_reset();
#endif
    memset(cnt[1], 0, sizeof cnt[1]);
    if (w_on_fork_child) w_on_fork_child();
    return 0;
  }
  if (p > 0) {
    child_set(p, 1);
    if (w_vclock) last_fork_op = w_cur_op;  // single-threaded engines only
  }
  fin(t, p);
  return p;
}

int __wrap_kill(pid_t pid, int sig)
{
  int k = next_k(F_kill);
  trec *t = rec(F_kill, k, pid, sig, 0);
  int st = pid > 0 ? wrap_child_state(pid) : 0;
  if (pid <= 0 || st != 1) {
    // Never forward: we run as root; kill(-1) would take the sandbox down.
    t->flags |= TF_BADTARGET | TF_NOTFWD;
    __atomic_fetch_add(&W->n_badtarget, 1, __ATOMIC_RELAXED);
    if (pid > 0) {
      t->ret = -1;
      t->err = ESRCH;
      errno = ESRCH;
      return -1;
    }
    t->ret = 0;
    return 0;
  }
  int e = fault_for(F_kill, k, t);
  if (e) {
    t->ret = -1;
    errno = e;
    return -1;
  }
  int fwd = w_on_kill ? w_on_kill(pid, sig) : 1;
  int r = 0;
  if (fwd)
    r = kill(pid, sig);
  else
    t->flags |= TF_NOTFWD;
  fin(t, r);
  return r;
}

pid_t __wrap_waitpid(pid_t pid, int *status, int options)
{
  int k = next_k(F_waitpid);
  trec *t = rec(F_waitpid, k, pid, options, 0);
  int st = pid > 0 ? wrap_child_state(pid) : 0;
  if (pid <= 0 || st != 1) {
    t->flags |= TF_BADTARGET;
    __atomic_fetch_add(&W->n_badtarget, 1, __ATOMIC_RELAXED);
    t->ret = -1;
    t->err = ECHILD;
    errno = ECHILD;
    return -1;
  }
  int e = fault_for(F_waitpid, k, t);
  if (e == EINTR) {
    t->ret = -1;
    errno = e;
    return -1;
  }
  if (w_vclock && !w_in_start && !(options & WNOHANG)) {
    int grace = (w_cur_op >= 0 && w_cur_op == last_fork_op) ? 3000 : 0;
    for (;;) {
      siginfo_t si;
      si.si_pid = 0;
      int q = waitid(P_PID, (id_t) pid, &si, WEXITED | WNOHANG | WNOWAIT);
      if (q < 0 || si.si_pid != 0) break;
      if (grace > 0) {
        grace--;
        usleep(1000);
        continue;
      }
      vwait_step("waitpid", t);
    }
  }
  pid_t r = waitpid(pid, status, options);
  if (r == pid) child_set(pid, 2);
  if (e) {
    // "somebody else already reaped it": performed, then reported as failed
    t->ret = -1;
    t->vt1 = w_vnow;
    errno = e;
    return -1;
  }
  fin(t, r);
  return r;
}

#ifdef VERIF_COV
// Coverage survey only. gcov derives most arc counts from flow conservation, which a dump
// from the middle of process_start (forked child, before exec) breaks for that function:
// the child's counters are reset at fork and written only when VERIF_COV_CHILD is set, so
// one pass gives exact parent-side numbers and a second one shows the child-side lines.
static void cov_child_dump(void)
{
  if (w_side == 1 && cov_child == 1) __gcov_dump();
}
#endif
int __wrap_execvp(const char *file, char *const argv[])
{
#ifdef VERIF_COV
  cov_child_dump();
#endif
  int k = next_k(F_execvp);
  trec *t = rec(F_execvp, k, 0, 0, 0);
  if (file) {
    strncpy(W->exec_path, file, sizeof W->exec_path - 1);
    W->exec_path[sizeof W->exec_path - 1] = 0;
    W->exec_seen = 1;
  }
  int e = fault_for(F_execvp, k, t);
  if (e) {
    t->ret = -1;
    errno = e;
    return -1;
  }
  int r = execvp(file, argv);
  fin(t, r);
  return r;
}

#ifdef VERIF_COV
// gcc --coverage rewrites fork/execvp in the instrumented objects to these
pid_t __wrap_fork(void);
pid_t __wrap___gcov_fork(void) { return __wrap_fork(); }
int __wrap___gcov_execvp(const char *file, char *const argv[]) { return __wrap_execvp(file, argv); }
#endif

void __wrap__exit(int code)
{
  int k = next_k(F__exit);
  trec *t = rec(F__exit, k, code, 0, 0);
  (void) t;
#ifdef VERIF_COV
  cov_child_dump();
#endif
  _exit(code);
}

// ---------------------------------------------------------------- descriptors
int __wrap_pipe(int fds[2])
{
  int k = next_k(F_pipe);
  trec *t = rec(F_pipe, k, 0, 0, 0);
  int e = fault_for(F_pipe, k, t);
  if (e) {
    t->ret = -1;
    errno = e;
    return -1;
  }
  delay();
  int r = pipe(fds);
  if (r == 0) {
    struct stat pst;
    t->a[0] = fds[0];
    t->a[1] = fds[1];
    if (fstat(fds[0], &pst) == 0) t->a[2] = (long) pst.st_ino;
    if (w_side == 0) {
      fd_add(fds[0]);
      fd_add(fds[1]);
    }
  }
  delay();
  fin(t, r);
  return r;
}

int __wrap_pipe2(int fds[2], int flags)
{
  int k = next_k(F_pipe);
  trec *t = rec(F_pipe, k, 0, 0, flags);
  int e = fault_for(F_pipe, k, t);
  if (e) {
    t->ret = -1;
    errno = e;
    return -1;
  }
  delay();
  int r = pipe2(fds, flags);
  if (r == 0) {
    struct stat pst;
    t->a[0] = fds[0];
    t->a[1] = fds[1];
    if (fstat(fds[0], &pst) == 0) t->a[2] = (long) pst.st_ino;  // same record layout as pipe()
    if (w_side == 0) {
      fd_add(fds[0]);
      fd_add(fds[1]);
    }
  }
  fin(t, r);
  return r;
}

int __wrap_close(int fd)
{
  int k = next_k(F_close);
  trec *t = rec(F_close, k, fd, 0, 0);
  if (w_side == 0 && w_ledger) {
    if (fd >= 0 && fd < MAXFD && fd_owned[fd]) {
      fd_owned[fd] = 0;
      fd_closed[fd] = 1;
    } else {
      t->flags |= TF_FOREIGN;
      if (fd >= 0 && fd < MAXFD && fd_closed[fd])
        W->n_double_close++;
      else
        W->n_foreign_close++;
    }
  }
  int e = fault_for(F_close, k, t);
  delay();
  int r = close(fd);  // Linux releases the descriptor even when close reports failure
  if (e) {
    t->ret = -1;
    errno = e;
    return -1;
  }
  fin(t, r);
  return r;
}

int __wrap_dup2(int oldfd, int newfd)
{
  int k = next_k(F_dup2);
  trec *t = rec(F_dup2, k, oldfd, newfd, 0);
  int e = fault_for(F_dup2, k, t);
  if (e) {
    t->ret = -1;
    errno = e;
    return -1;
  }
  int r = dup2(oldfd, newfd);
  if (r >= 0 && w_side == 0 && oldfd != newfd) fd_add(r);
  fin(t, r);
  return r;
}

int __wrap_dup3(int oldfd, int newfd, int flags)
{
  int k = next_k(F_dup2);
  trec *t = rec(F_dup2, k, oldfd, newfd, flags);
  int e = fault_for(F_dup2, k, t);
  if (e) {
    t->ret = -1;
    errno = e;
    return -1;
  }
  int r = dup3(oldfd, newfd, flags);
  if (r >= 0 && w_side == 0) fd_add(r);
  fin(t, r);
  return r;
}

int __wrap_dup(int oldfd)
{
  int k = next_k(F_dup2);
  trec *t = rec(F_dup2, k, oldfd, -1, 0);
  int e = fault_for(F_dup2, k, t);
  if (e) {
    t->ret = -1;
    errno = e;
    return -1;
  }
  int r = dup(oldfd);
  if (r >= 0 && w_side == 0) fd_add(r);
  fin(t, r);
  return r;
}

int __wrap_fcntl(int fd, int cmd, ...)
{
  va_list ap;
  va_start(ap, cmd);
  long arg = va_arg(ap, long);
  va_end(ap);
  int k = next_k(F_fcntl);
  trec *t = rec(F_fcntl, k, fd, cmd, arg);
  int e = fault_for(F_fcntl, k, t);
  if (e) {
    t->ret = -1;
    errno = e;
    return -1;
  }
  delay();
  int r = fcntl(fd, cmd, arg);
  if (r >= 0 && w_side == 0 && (cmd == F_DUPFD || cmd == F_DUPFD_CLOEXEC)) fd_add(r);
  fin(t, r);
  return r;
}

int __wrap_open(const char *path, int flags, ...)
{
  va_list ap;
  va_start(ap, flags);
  int mode = va_arg(ap, int);
  va_end(ap);
  int k = next_k(F_open);
  trec *t = rec(F_open, k, (long) (uintptr_t) path, flags, mode);
  int e = fault_for(F_open, k, t);
  if (e) {
    t->ret = -1;
    errno = e;
    return -1;
  }
  int r = open(path, flags, mode);
  if (r >= 0 && w_side == 0) fd_add(r);
  fin(t, r);
  return r;
}

int __wrap_open64(const char *path, int flags, ...)
{
  va_list ap;
  va_start(ap, flags);
  int mode = va_arg(ap, int);
  va_end(ap);
  return __wrap_open(path, flags, mode);
}

int __wrap_fileno(FILE *f)
{
  int k = next_k(F_fileno);
  trec *t = rec(F_fileno, k, (long) (uintptr_t) f, 0, 0);
  int e = fault_for(F_fileno, k, t);
  if (e) {
    t->ret = -1;
    errno = e;
    return -1;
  }
  int r = fileno(f);
  fin(t, r);
  return r;
}

// ---------------------------------------------------------------- I/O
ssize_t __wrap_read(int fd, void *buf, size_t n)
{
  int k = next_k(F_read);
  trec *t = rec(F_read, k, fd, (long) n, 0);
  int e = fault_for(F_read, k, t);
  if (e == 50000) {
    // short transfer: the kernel hands over less than was asked for (legal for pipes)
    if (n > 1) n = n / 2;
    e = 0;
  }
  if (e) {
    t->ret = -1;
    errno = e;
    return -1;
  }
  delay();
  int fl = fcntl(fd, F_GETFL);
  int nb = fl >= 0 && (fl & O_NONBLOCK);
  if (nb) t->flags |= TF_NONBLOCK;
  if (w_vclock && !w_in_start && fl >= 0 && !nb) {
    // A child forked during this API call runs in real time until it execs or fails:
    // give its error pipe real time before treating the wait as a virtual one.
    int grace = (w_cur_op >= 0 && w_cur_op == last_fork_op) ? 3000 : 0;
    for (;;) {
      int prog = w_sched_run(w_vnow);
      struct pollfd p = { fd, POLLIN, 0 };
      int q = poll(&p, 1, grace);
      grace = 0;
      if (q != 0) break;
      if (prog) continue;
      vwait_step("read", t);
    }
  }
  ssize_t r = read(fd, buf, n);
  fin(t, r);
  return r;
}

ssize_t __wrap_write(int fd, const void *buf, size_t n)
{
  int k = next_k(F_write);
  trec *t = rec(F_write, k, fd, (long) n, 0);
  int e = fault_for(F_write, k, t);
  if (e == 50000) {
    // short transfer: only part of the buffer is accepted (legal for pipes, usual after a signal)
    if (n > 1) n = n / 2;
    e = 0;
  }
  if (e) {
    t->ret = -1;
    errno = e;
    return -1;
  }
  delay();
  int fl = fcntl(fd, F_GETFL);
  int nb = fl >= 0 && (fl & O_NONBLOCK);
  if (nb) t->flags |= TF_NONBLOCK;
  if (w_vclock && w_side == 0 && fl >= 0 && !nb) {
    // Emulate a blocking write on the virtual timeline: the peer only acts through
    // scheduled events, so really blocking here would never end.
    size_t done = 0;
    ssize_t r = 0;
    for (;;) {
      int prog = w_sched_run(w_vnow);
      fcntl(fd, F_SETFL, fl | O_NONBLOCK);
      r = write(fd, (const char *) buf + done, n - done);
      int we = errno;
      fcntl(fd, F_SETFL, fl);
      errno = we;
      if (r > 0) done += (size_t) r;
      if (r < 0 && errno != EAGAIN) break;
      if (done >= n) break;
      if (r > 0 || prog) continue;  // the peer may be able to go on now
      vwait_step("write", t);
    }
    if (r < 0 && done == 0) {
      fin(t, -1);
      return -1;
    }
    fin(t, (long) done);
    return (ssize_t) done;
  }
  ssize_t r = write(fd, buf, n);
  fin(t, r);
  if (w_vclock && w_side == 0 && w_cur_op >= 0) {
    // a caller that keeps retrying a would-block write inside ONE API call will never get anywhere on
    // the virtual timeline (the peer only acts on scheduled events): that is a hang, not a busy wait
    if (r < 0 && errno == EAGAIN) {
      if (spin_op != w_cur_op) {
        spin_op = w_cur_op;
        spin_count = 0;
      }
      if (++spin_count > 5000) hang("spin:write");
    } else {
      spin_count = 0;
    }
  }
  return r;
}

int __wrap_poll(struct pollfd *fds, nfds_t nfds, int timeout)
{
  int k = next_k(F_poll);
  trec *t = rec(F_poll, k, (long) nfds, timeout, 0);
  int e = fault_for(F_poll, k, t);
  // 40000 + d: a signal interrupts this call d virtual ms after it started blocking (unless
  // something it polls for happens first) - the interruption then falls *inside* the wait
  int64_t intr = INT64_MAX;
  if (e >= 40000 && w_vclock) {
    intr = w_vnow + (e - 40000);
    t->err = EINTR;
    e = 0;
  } else if (e >= 40000) {
    e = EINTR;
  }
  if (e) {
    t->ret = -1;
    errno = e;
    return -1;
  }
  delay();
  if (!w_vclock) {
    int r = poll(fds, nfds, timeout);
    fin(t, r);
    return r;
  }
  int64_t start = w_vnow;
  int r;
  for (;;) {
    int prog = w_sched_run(w_vnow);
    r = poll(fds, nfds, 0);
    if (r != 0 || timeout == 0) break;
    if (prog) continue;
    int64_t end = timeout < 0 ? INT64_MAX : start + timeout;
    int64_t stopat = end < intr ? end : intr;
    int64_t nx = w_sched_next ? w_sched_next() : INT64_MAX;
    if (nx == INT64_MAX && stopat == INT64_MAX) hang("poll");
    t->flags |= TF_WAITED;
    if (nx <= stopat) {
      if (nx > w_vnow) w_vnow = nx;
      continue;
    }
    w_vnow = stopat;
    if (intr < end) {
      errno = EINTR;
      fin(t, -1);
      return -1;
    }
    r = 0;
    break;
  }
  fin(t, r);
  return r;
}

int __wrap_clock_gettime(clockid_t clk, struct timespec *ts)
{
  if (!w_vclock) return clock_gettime(clk, ts);
  int64_t ms = w_epoch_ms + w_vnow;
  ts->tv_sec = (time_t) (ms / 1000);
  ts->tv_nsec = (long) (ms % 1000) * 1000000L;
  return 0;
}

// ---------------------------------------------------------------- memory
void *__wrap_malloc(size_t n)
{
  int k = next_k(F_malloc);
  trec *t = rec(F_malloc, k, (long) n, 0, 0);
  int e = fault_for(F_malloc, k, t);
  int ka = next_k(F_anyalloc);  // position among all allocation calls, whatever the function
  if (!e) e = fault_for(F_anyalloc, ka, t);
  if (e) {
    t->ret = 0;
    errno = e;
    return NULL;
  }
  void *p = malloc(n);
  if (w_side == 0 && w_ledger) heap_add(p);
  t->ret = p != NULL;
  return p;
}

void *__wrap_calloc(size_t a, size_t b)
{
  int k = next_k(F_calloc);
  trec *t = rec(F_calloc, k, (long) a, (long) b, 0);
  int e = fault_for(F_calloc, k, t);
  int ka = next_k(F_anyalloc);  // position among all allocation calls, whatever the function
  if (!e) e = fault_for(F_anyalloc, ka, t);
  if (e) {
    t->ret = 0;
    errno = e;
    return NULL;
  }
  void *p = calloc(a, b);
  if (w_side == 0 && w_ledger) heap_add(p);
  t->ret = p != NULL;
  return p;
}

void *__wrap_realloc(void *old, size_t n)
{
  int k = next_k(F_realloc);
  trec *t = rec(F_realloc, k, (long) n, 0, 0);
  int e = fault_for(F_realloc, k, t);
  int ka = next_k(F_anyalloc);  // position among all allocation calls, whatever the function
  if (!e) e = fault_for(F_anyalloc, ka, t);
  if (e) {
    t->ret = 0;
    errno = e;
    return NULL;
  }
  // An unknown old pointer is legitimate here: the string sink grows a caller-supplied string.
  if (w_side == 0 && w_ledger && old) heap_del(old);
  void *p = realloc(old, n);
  if (w_side == 0 && w_ledger) heap_add(p ? p : (n ? old : NULL));
  t->ret = p != NULL;
  return p;
}

char *__wrap_strdup(const char *s)
{
  int k = next_k(F_strdup);
  trec *t = rec(F_strdup, k, 0, 0, 0);
  int e = fault_for(F_strdup, k, t);
  int ka = next_k(F_anyalloc);  // position among all allocation calls, whatever the function
  if (!e) e = fault_for(F_anyalloc, ka, t);
  if (e) {
    t->ret = 0;
    errno = e;
    return NULL;
  }
  char *p = strdup(s);
  if (w_side == 0 && w_ledger) heap_add(p);
  t->ret = p != NULL;
  return p;
}

void __wrap_free(void *p)
{
  int k = next_k(F_free);
  trec *t = rec(F_free, k, p != NULL, 0, 0);
  if (p && w_side == 0 && w_ledger) {
    if (!heap_del(p)) {
      t->flags |= TF_FOREIGN;
      W->n_unknown_free++;
    }
  }
  free(p);
}

// ---------------------------------------------------------------- misc
int __wrap_chdir(const char *path)
{
  int k = next_k(F_chdir);
  trec *t = rec(F_chdir, k, 0, 0, 0);
  int e = fault_for(F_chdir, k, t);
  if (e) {
    t->ret = -1;
    errno = e;
    return -1;
  }
  int r = chdir(path);
  fin(t, r);
  return r;
}

char *__wrap_getcwd(char *buf, size_t size)
{
  int k = next_k(F_getcwd);
  trec *t = rec(F_getcwd, k, (long) size, 0, 0);
  int e = fault_for(F_getcwd, k, t);
  if (e) {
    t->ret = 0;
    errno = e;
    return NULL;
  }
  char *r = getcwd(buf, size);
  int se = errno;
  t->ret = r != NULL;
  t->err = r ? 0 : se;
  errno = se;
  return r;
}

int __wrap_getrlimit(int res, struct rlimit *rl)
{
  int k = next_k(F_getrlimit);
  trec *t = rec(F_getrlimit, k, res, 0, 0);
  int e = fault_for(F_getrlimit, k, t);
  if (e >= 30000) {
    // value fault: the call succeeds and reports a limit this machine cannot really be given
    // (fs.nr_open caps the real one): 30001 unlimited, 30002 just above what the library accepts
    int r = getrlimit(res, rl);
    if (r == 0) rl->rlim_cur = e == 30001 ? RLIM_INFINITY : (rlim_t) 1024 * 1024 + 2;
    fin(t, r);
    return r;
  }
  if (e) {
    t->ret = -1;
    errno = e;
    return -1;
  }
  int r = getrlimit(res, rl);
  fin(t, r);
  return r;
}

int __wrap_sigaction(int sig, const struct sigaction *act, struct sigaction *old)
{
  int k = next_k(F_sigaction);
  trec *t = rec(F_sigaction, k, sig, act != NULL, 0);
  int e = fault_for(F_sigaction, k, t);
  if (e) {
    t->ret = -1;
    errno = e;
    return -1;
  }
  int r = sigaction(sig, act, old);
  fin(t, r);
  return r;
}

int __wrap_pthread_sigmask(int how, const sigset_t *set, sigset_t *old)
{
  int k = next_k(F_sigmask);
  trec *t = rec(F_sigmask, k, how, set != NULL, 0);
  int e = fault_for(F_sigmask, k, t);
  if (e) {
    t->ret = e;
    return e;  // pthread_sigmask returns the error number
  }
  int r = pthread_sigmask(how, set, old);
  t->ret = r;
  t->err = r;
  return r;
}

int __wrap_sigprocmask(int how, const sigset_t *set, sigset_t *old)
{
  int k = next_k(F_sigmask);
  trec *t = rec(F_sigmask, k, how, set != NULL, 1);
  int e = fault_for(F_sigmask, k, t);
  if (e) {
    t->ret = -1;
    errno = e;
    return -1;
  }
  int r = sigprocmask(how, set, old);
  fin(t, r);
  return r;
}

int __wrap_sigemptyset(sigset_t *s)
{
  int k = next_k(F_sigemptyset);
  trec *t = rec(F_sigemptyset, k, 0, 0, 0);
  int e = fault_for(F_sigemptyset, k, t);
  if (e) {
    t->ret = -1;
    errno = e;
    return -1;
  }
  int r = sigemptyset(s);
  fin(t, r);
  return r;
}

int __wrap_sigfillset(sigset_t *s)
{
  int k = next_k(F_sigfillset);
  trec *t = rec(F_sigfillset, k, 0, 0, 0);
  int e = fault_for(F_sigfillset, k, t);
  if (e) {
    t->ret = -1;
    errno = e;
    return -1;
  }
  int r = sigfillset(s);
  fin(t, r);
  return r;
}
