// Engine 'mt' (C20): documented thread-safety under ThreadSanitizer with seeded delays injected
// at the libc boundary, plus a cross-talk oracle (every child has its own payload, exit code,
// descriptor table and must see EOF on its own stdin while its siblings are alive).
//
// usage: mt <vchild> <scratch> <reps> <seed> <maxthreads>
#define _GNU_SOURCE
#include "common.h"
#include "wrap.h"

#include <dirent.h>
#include <errno.h>
#include <fcntl.h>
#include <poll.h>
#include <pthread.h>
#include <signal.h>
#include <stdio.h>
#include <stdlib.h>
#include <string.h>
#include <sys/resource.h>
#include <sys/socket.h>
#include <sys/stat.h>
#include <sys/un.h>
#include <sys/wait.h>
#include <time.h>
#include <unistd.h>

#include <reproc/drain.h>
#include <reproc/reproc.h>

static const char *g_vchild, *g_scratch;
static pthread_mutex_t out_mu = PTHREAD_MUTEX_INITIALIZER;
static long st_children, st_bytes, st_viol, st_strerror, st_snap_ok, st_eof_ok, st_concurrent_starts;
static int g_rep;
#define LD(x) __atomic_load_n(&(x), __ATOMIC_ACQUIRE)
#define ST(x, v) __atomic_store_n(&(x), (v), __ATOMIC_RELEASE)

#define MAXT 16
typedef struct {
  int idx, rep, scenario;
  uint32_t seed;
  // child description
  long nout, nerr, nin;
  int code;
  // results
  int pid, done;
  unsigned long stdin_ino;
  char dir[600];
  reproc_t *p;
  int csock, lsock;
  int phase;
} job;
static job jobs[MAXT];
static int njobs;
static pthread_barrier_t start_barrier;

static void vio(const char *cls, job *j, const char *fmt, long a, long b, long c)
{
  char m[300];
  snprintf(m, sizeof m, fmt, a, b, c);
  pthread_mutex_lock(&out_mu);
  st_viol++;
  printf("V\t%s\trep=%d scenario=%d thread=%d\t%s\n", cls, j ? j->rep : -1, j ? j->scenario : -1, j ? j->idx : -1, m);
  fflush(stdout);
  pthread_mutex_unlock(&out_mu);
}

static int listener(const char *path)
{
  int s = socket(AF_UNIX, SOCK_STREAM | SOCK_CLOEXEC, 0);
  struct sockaddr_un sa;
  memset(&sa, 0, sizeof sa);
  sa.sun_family = AF_UNIX;
  strncpy(sa.sun_path, path, sizeof sa.sun_path - 1);
  unlink(path);
  if (bind(s, (struct sockaddr *) &sa, sizeof sa) < 0 || listen(s, 2) < 0) {
    perror("bind");
    _exit(95);
  }
  return s;
}

static void setup(job *j)
{
  snprintf(j->dir, sizeof j->dir, "%s/r%dt%d", g_scratch, j->rep, j->idx);
  mkdir(j->dir, 0755);
  char p[700];
  snprintf(p, sizeof p, "%s/vc", j->dir);
  unlink(p);
  if (link(g_vchild, p) < 0) {
    perror("link");
    _exit(95);
  }
  snprintf(p, sizeof p, "%s/vc.cfg", j->dir);
  FILE *f = fopen(p, "w");
  fprintf(f, "%s/s\nsnap free:out=%ld err=%ld echo=2 exit=%d seed=%u\nt%d\n", j->dir, j->nout, j->nerr, j->code, j->seed, j->idx);
  fclose(f);
  snprintf(p, sizeof p, "%s/s", j->dir);
  j->lsock = listener(p);
  j->csock = -1;
}

// wait for the helper's hello and descriptor snapshot
static int hello(job *j)
{
  struct pollfd pf = { j->lsock, POLLIN, 0 };
  if (poll(&pf, 1, 20000) <= 0) return -1;
  j->csock = accept4(j->lsock, NULL, NULL, SOCK_CLOEXEC);
  if (j->csock < 0) return -1;
  char *m = msg_recv(j->csock, NULL);
  if (!m) return -1;
  int pid = 0;
  sscanf(m, "H %d", &pid);
  free(m);
  ST(j->pid, pid);
  m = msg_recv(j->csock, NULL);  // snapshot
  if (!m) return -1;
  int nfifo = 0, nother = 0, has[3] = { 0, 0, 0 };
  char *save = NULL;
  for (char *line = strtok_r(m, "\n", &save); line; line = strtok_r(NULL, "\n", &save)) {
    int fd, fl, fdfl;
    unsigned long long dev, ino, rdev;
    unsigned mode;
    if (sscanf(line, "fd %d %llu %llu %llu %o %d %d", &fd, &dev, &ino, &rdev, &mode, &fl, &fdfl) == 7) {
      if (fd <= 2) {
        has[fd] = 1;
        if (fd == 0) ST(j->stdin_ino, (unsigned long) ino);
      } else if (S_ISFIFO(mode)) nfifo++;
      else nother++;
    }
  }
  free(m);
  if (nother || nfifo != 1 || !has[0] || !has[1] || !has[2])
    vio("child-descriptor-table", j, "child sees %ld extra pipe(s) and %ld other extra descriptor(s) (std streams present: %ld)", nfifo, nother,
        has[0] + has[1] + has[2]);
  else
    __atomic_fetch_add(&st_snap_ok, 1, __ATOMIC_RELAXED);
  return 0;
}

typedef struct {
  job *j;
  long got_out, bad_out;
} rdctx;

static void *writer_thread(void *arg)
{
  job *j = arg;
  uint8_t buf[8192];
  long off = 0;
  while (off < j->nin) {
    long n = j->nin - off < (long) sizeof buf ? j->nin - off : (long) sizeof buf;
    for (long i = 0; i < n; i++) buf[i] = poscode(0, (uint64_t) (off + i));
    int r = reproc_write(j->p, buf, (size_t) n);
    if (r < 0) {
      vio("write-failed", j, "reproc_write returned %ld at offset %ld", r, off, 0);
      break;
    }
    off += r;
  }
  reproc_close(j->p, REPROC_STREAM_IN);
  return NULL;
}

// Read a stream to its end, verifying the position code. stdout carries nout bytes of stream 1
// followed by the echo of what the child read on stdin (stream 0 code).
static long read_all(job *j, REPROC_STREAM st, long *bad)
{
  uint8_t buf[8192];
  long got = 0;
  *bad = -1;
  for (;;) {
    int r = reproc_read(j->p, st, buf, sizeof buf);
    if (r == REPROC_EPIPE) break;
    if (r < 0) {
      vio("read-failed", j, "reproc_read(stream %ld) returned %ld after %ld bytes", st, r, got);
      break;
    }
    for (int i = 0; i < r; i++) {
      long pos = got + i;
      uint8_t want;
      if (st == REPROC_STREAM_ERR) want = poscode(2, (uint64_t) pos);
      else want = pos < j->nout ? poscode(1, (uint64_t) pos) : poscode(0, (uint64_t) (pos - j->nout));
      if (buf[i] != want && *bad < 0) *bad = pos;
    }
    got += r;
  }
  return got;
}

static void *reader_thread(void *arg)
{
  rdctx *c = arg;
  c->got_out = read_all(c->j, REPROC_STREAM_OUT, &c->bad_out);
  return NULL;
}

typedef struct {
  job *j;
  long got[3], bad[3], closes[3];
} dsink;

static int drain_sink(REPROC_STREAM stream, const uint8_t *buf, size_t size, void *ctx)
{
  dsink *d = ctx;
  job *j = d->j;
  if (stream != REPROC_STREAM_OUT && stream != REPROC_STREAM_ERR) return 0;
  if (size == 0) d->closes[stream]++;
  for (size_t i = 0; i < size; i++) {
    long pos = d->got[stream] + (long) i;
    uint8_t want;
    if (stream == REPROC_STREAM_ERR) want = poscode(2, (uint64_t) pos);
    else want = pos < j->nout ? poscode(1, (uint64_t) pos) : poscode(0, (uint64_t) (pos - j->nout));
    if (buf[i] != want && d->bad[stream] < 0) d->bad[stream] = pos;
  }
  d->got[stream] += (long) size;
  return 0;
}

static void *cycle(void *arg)
{
  job *j = arg;
  setup(j);
  j->p = reproc_new();
  char prog[700];
  snprintf(prog, sizeof prog, "%s/vc", j->dir);
  const char *argv[] = { prog, NULL };
  reproc_options o;
  memset(&o, 0, sizeof o);
  o.redirect.err.type = j->scenario == 0 ? REPROC_REDIRECT_DISCARD : REPROC_REDIRECT_PIPE;
  o.stop.first.action = REPROC_STOP_KILL;
  o.stop.first.timeout = REPROC_INFINITE;
  ST(j->phase, 1);
  // every thread has its own signal mask (bits of its index over four harmless signals): a start must
  // give back the mask of the thread that called it, not that of a sibling starting at the same moment
  static const int masksigs[4] = { SIGUSR1, SIGUSR2, SIGHUP, SIGWINCH };
  sigset_t mine, after;
  pthread_sigmask(SIG_SETMASK, NULL, &mine);
  for (int b = 0; b < 4; b++) {
    if (((j->idx + 1) >> b) & 1) sigaddset(&mine, masksigs[b]);
    else sigdelset(&mine, masksigs[b]);
  }
  pthread_sigmask(SIG_SETMASK, &mine, NULL);
  pthread_barrier_wait(&start_barrier);  // all threads start their child at the same moment
  int r = reproc_start(j->p, argv, o);
  pthread_sigmask(SIG_SETMASK, NULL, &after);
  for (int sg = 1; sg < 32; sg++)
    if (sigismember(&mine, sg) != sigismember(&after, sg)) {
      vio("signal-mask-crosstalk", j, "a concurrent reproc_start changed this thread's signal mask: signal %ld blocked before the call: %ld, after: %ld", sg,
          sigismember(&mine, sg), sigismember(&after, sg));
      pthread_sigmask(SIG_SETMASK, &mine, NULL);
      break;
    }
  if (r <= 0) {
    vio("start-failed", j, "reproc_start returned %ld", r, 0, 0);
    goto out;
  }
  ST(j->phase, 2);
  if (hello(j) < 0) {
    vio("no-hello", j, "the program never reported (pid %ld)", reproc_pid(j->p), 0, 0);
    goto out;
  }
  if (reproc_pid(j->p) != j->pid) vio("pid-crosstalk", j, "reproc_pid=%ld but the child of this handle says %ld", reproc_pid(j->p), j->pid, 0);
  ST(j->phase, 3);
  long got_out, bad_out, got_err = 0, bad_err = -1;
  if (j->scenario == 0) {
    // reader and writer thread on the same child, at the same time
    pthread_t wt, rt;
    rdctx rc = { j, 0, -1 };
    pthread_create(&rt, NULL, reader_thread, &rc);
    pthread_create(&wt, NULL, writer_thread, j);
    pthread_join(wt, NULL);
    pthread_join(rt, NULL);
    got_out = rc.got_out;
    bad_out = rc.bad_out;
  } else if (j->scenario == 3) {
    // reproc_drain from several threads at once, each on its own child
    writer_thread(j);
    dsink d = { j, { 0, 0, 0 }, { -1, -1, -1 }, { 0, 0, 0 } };
    reproc_sink so = { drain_sink, &d }, se = { drain_sink, &d };
    int dr = reproc_drain(j->p, so, se);
    if (dr != 0) vio("drain-failed", j, "reproc_drain returned %ld", dr, 0, 0);
    got_out = d.got[1];
    bad_out = d.bad[1];
    got_err = d.got[2];
    bad_err = d.bad[2];
  } else {
    writer_thread(j);
    got_out = read_all(j, REPROC_STREAM_OUT, &bad_out);
    got_err = read_all(j, REPROC_STREAM_ERR, &bad_err);
  }
  ST(j->phase, 4);
  __atomic_fetch_add(&st_bytes, got_out + got_err, __ATOMIC_RELAXED);
  if (got_out != j->nout + j->nin) vio("output-length", j, "stdout delivered %ld bytes, the child wrote %ld + echoed %ld", got_out, j->nout, j->nin);
  else __atomic_fetch_add(&st_eof_ok, 1, __ATOMIC_RELAXED);
  if (bad_out >= 0) vio("output-crosstalk", j, "stdout byte %ld is not what this handle's child wrote", bad_out, 0, 0);
  if (j->scenario != 0) {
    if (got_err != j->nerr) vio("output-length", j, "stderr delivered %ld bytes, the child wrote %ld", got_err, j->nerr, 0);
    if (bad_err >= 0) vio("output-crosstalk", j, "stderr byte %ld is not what this handle's child wrote", bad_err, 0, 0);
  }
  r = reproc_wait(j->p, REPROC_INFINITE);
  if (r != j->code) vio("status-crosstalk", j, "wait returned %ld, this handle's child exits with %ld", r, j->code, 0);
out:
  ST(j->phase, 5);
  reproc_destroy(j->p);
  j->p = NULL;
  if (j->csock >= 0) close(j->csock);
  close(j->lsock);
  __atomic_fetch_add(&st_children, 1, __ATOMIC_RELAXED);
  ST(j->done, 1);
  return NULL;
}

static void *strerror_thread(void *arg)
{
  long idx = (long) arg;
  static const int codes[] = { 22, 32, 110, 12, 11, 2, 13, 9 };
  int code = codes[idx % 8];
  char expect[256];
  snprintf(expect, sizeof expect, "%s", strerror(code));
  const char *first = NULL;
  for (int i = 0; i < 20000; i++) {
    const char *s = reproc_strerror(-code);
    if (!first) first = s;
    if (strcmp(s, expect) != 0) {
      vio("strerror-text-changed", NULL, "reproc_strerror(-%ld) returned a different text in iteration %ld", code, i, 0);
      break;
    }
  }
  __atomic_fetch_add(&st_strerror, 20000, __ATOMIC_RELAXED);
  return (void *) first;
}

// When a repetition does not finish: look for the cause instead of trusting the clock.
static void *watchdog(void *arg)
{
  int rep = (int) (long) arg;
  for (int i = 0; i < 600; i++) {
    usleep(100000);
    if (LD(g_rep) != rep) return NULL;
    int all = 1;
    for (int k = 0; k < njobs; k++)
      if (!LD(jobs[k].done)) all = 0;
    if (all) return NULL;
  }
  // stuck: is some sibling holding the stdin pipe of a child that is waiting for EOF?
  int found = 0;
  for (int k = 0; k < njobs; k++) {
    job *j = &jobs[k];
    if (LD(j->done) || !LD(j->stdin_ino)) continue;
    for (int m = 0; m < njobs; m++) {
      if (m == k || LD(jobs[m].pid) <= 0) continue;
      char d[64];
      snprintf(d, sizeof d, "/proc/%d/fd", LD(jobs[m].pid));
      DIR *dir = opendir(d);
      if (!dir) continue;
      struct dirent *e;
      while ((e = readdir(dir))) {
        char lp[128], tgt[128];
        snprintf(lp, sizeof lp, "%s/%s", d, e->d_name);
        ssize_t n = readlink(lp, tgt, sizeof tgt - 1);
        if (n <= 0) continue;
        tgt[n] = 0;
        unsigned long ino = 0;
        if (sscanf(tgt, "pipe:[%lu]", &ino) == 1 && ino == LD(j->stdin_ino)) {
          vio("stdin-pipe-leaked-to-sibling", j, "child %ld never saw EOF: sibling pid %ld holds its stdin pipe (inode %ld)", j->pid, jobs[m].pid, (long) ino);
          found = 1;
        }
      }
      closedir(dir);
    }
  }
  pthread_mutex_lock(&out_mu);
  if (!found) printf("W\twatchdog: repetition %d did not finish within 60 s (phases:", rep);
  if (!found)
    for (int k = 0; k < njobs; k++) printf(" %d", LD(jobs[k].phase));
  if (!found) printf(")\n");
  printf("S\t%ld\t%ld\t%ld\t%ld\t%ld\t%ld\t%ld\n", st_children, st_bytes, st_viol, st_strerror, st_snap_ok, st_eof_ok, st_concurrent_starts);
  fflush(stdout);
  for (int k = 0; k < njobs; k++)
    if (LD(jobs[k].pid) > 0) kill(LD(jobs[k].pid), SIGKILL);
  _exit(found ? 1 : 3);
  return NULL;
}

static uint64_t interleaving_hash(void)
{
  // order of (thread index, function) of the first wrapper events of this repetition
  uint64_t h = 1469598103934665603ULL;
  uint32_t n = W->ntr < 400 ? W->ntr : 400;
  for (uint32_t i = 0; i < n; i++) {
    trec *t = &W->tr[i];
    if (t->side != 0) continue;
    h = (h ^ (uint64_t) (t->pad * 64 + t->fn)) * 1099511628211ULL;
  }
  return h;
}

int main(int argc, char **argv)
{
  if (argc < 6) return 2;
  g_vchild = realpath(argv[1], NULL);
  g_scratch = argv[2];
  int reps = atoi(argv[3]);
  uint32_t seed = (uint32_t) atol(argv[4]);
  int maxthreads = atoi(argv[5]);
  if (maxthreads > MAXT) maxthreads = MAXT;
  mkdir(g_scratch, 0755);
  signal(SIGPIPE, SIG_IGN);
  struct rlimit rl;
  getrlimit(RLIMIT_NOFILE, &rl);
  rl.rlim_cur = 512;
  setrlimit(RLIMIT_NOFILE, &rl);
  wrap_init();
  wrap_reset_case();
  w_delays = 1;
  uint32_t x = seed * 2654435761u + 99;
  for (int rep = 0; rep < reps; rep++) {
    x ^= x << 13; x ^= x >> 17; x ^= x << 5;
    W->ntr = 0;
    W->nchild = 0;
    W->delay_seed = x;
    ST(g_rep, rep);
    int scenario = rep % 4;  // 0: reader+writer threads per child, 1/2: complete cycles per thread, 3: cycles through reproc_drain
    int nt = scenario == 0 ? 2 + (int) (x % 7) : 2 + (int) ((x >> 3) % (unsigned) (maxthreads - 1));
    if (nt > maxthreads) nt = maxthreads;
    njobs = nt;
    pthread_barrier_init(&start_barrier, NULL, (unsigned) nt);
    pthread_t wd, th[MAXT], st[4];
    for (int i = 0; i < nt; i++) memset(&jobs[i], 0, sizeof jobs[i]);
    pthread_create(&wd, NULL, watchdog, (void *) (long) rep);
    for (int i = 0; i < nt; i++) {
      job *j = &jobs[i];
      j->idx = i;
      j->rep = rep;
      j->scenario = scenario;
      x = x * 1103515245u + 12345u;
      j->seed = x;
      if (scenario == 0) {
        j->nout = 1 + (long) (x % 300000);
        j->nin = 1 + (long) ((x >> 7) % 1048576);
      } else {
        j->nout = (long) (x % 30000);
        j->nerr = (long) ((x >> 5) % 20000);
        j->nin = (long) ((x >> 9) % 30000);
      }
      j->code = 1 + (i * 13 + rep) % 250;
      pthread_create(&th[i], NULL, cycle, j);
    }
    st_concurrent_starts += nt;
    for (long i = 0; i < 4; i++) pthread_create(&st[i], NULL, strerror_thread, (void *) (i + rep));
    const char *bufs[4];
    for (int i = 0; i < 4; i++) pthread_join(st[i], (void **) &bufs[i]);
    for (int a = 0; a < 4; a++)
      for (int b = a + 1; b < 4; b++)
        if (bufs[a] && bufs[a] == bufs[b]) vio("strerror-buffer-shared", NULL, "two threads got the same error string buffer (%ld, %ld)", a, b, 0);
    for (int i = 0; i < nt; i++) pthread_join(th[i], NULL);
    ST(g_rep, -1);
    pthread_join(wd, NULL);
    pthread_barrier_destroy(&start_barrier);
    if (W->n_badtarget) vio("badtarget", NULL, "%ld kill/waitpid calls aimed at something that is not a live child", W->n_badtarget, 0, 0);
    W->n_badtarget = 0;
    printf("H\t%016llx\n", (unsigned long long) interleaving_hash());
    char cmd[700];
    snprintf(cmd, sizeof cmd, "rm -rf %s/r%dt*", g_scratch, rep);
    if (system(cmd) != 0) {}
  }
  printf("S\t%ld\t%ld\t%ld\t%ld\t%ld\t%ld\t%ld\n", st_children, st_bytes, st_viol, st_strerror, st_snap_ok, st_eof_ok, st_concurrent_starts);
  return st_viol ? 1 : 0;
}
