// C15, C++ pass: the destructor of reproc::process applies the stop policy and deadline given at
// start through reproc::options - reproc++ (reproc.cpp + headers of the tree) against the REAL
// interposed library, free-running helper children, real clock. Judged: which signals the library
// sends and in which order, lower bounds on when (never before the waits of the policy have
// expired), whether the child is reaped / still running afterwards. Nothing judged depends on the
// machine being fast: children that are to be stopped live 10 minutes (the harness removes them),
// and cases whose child ends by itself are skipped when they run 1.5 s late. Every kill() of the library passes the hook below (time-stamped).
//
// usage: cxxlife <vchild> <scratch> <worker> <nworkers> <tier> <seed>
#include <errno.h>
#include <signal.h>
#include <sys/stat.h>
#include <sys/wait.h>
#include <time.h>
#include <unistd.h>

#include <cstdint>
#include <cstdio>
#include <cstdlib>
#include <cstring>
#include <string>
#include <system_error>
#include <utility>
#include <vector>

#include <reproc++/reproc.hpp>

extern "C" {
#undef _GNU_SOURCE
#include "wrap.h"
}

#define SLACK_MS 2
#define SLOW_MS 1500

static long st_cases, st_viol, st_dtors, st_signals, st_lower, st_reaped, st_left, st_slow, st_moved, st_nosig, st_unclear;

static void viol(const char *cls, long idx, const std::string &msg)
{
  st_viol++;
  printf("V\t%s\tcase=%ld\t%s\n", cls, idx, msg.c_str());
}

static int64_t mono_ms()
{
  struct timespec ts;
  clock_gettime(CLOCK_MONOTONIC, &ts);
  return static_cast<int64_t>(ts.tv_sec) * 1000 + ts.tv_nsec / 1000000;
}

struct Sig {
  int pid, sig;
  int64_t t;
};
static std::vector<Sig> g_sigs;
static int on_kill(int pid, int sig)
{
  g_sigs.push_back({ pid, sig, mono_ms() });
  return 1;  // forward (the wrapper has already checked that pid is a live child of the library)
}

static std::string g_vchild, g_scratch;
static uint64_t rs;
static uint64_t rnd()
{
  rs ^= rs << 13;
  rs ^= rs >> 7;
  rs ^= rs << 17;
  return rs;
}

static std::string setup_child(long idx, long life, int ign, int code)
{
  std::string dir = g_scratch + "/l" + std::to_string(idx);
  mkdir(dir.c_str(), 0755);
  std::string prog = dir + "/vc";
  unlink(prog.c_str());
  if (link(g_vchild.c_str(), prog.c_str()) < 0) {
    perror("link");
    exit(95);
  }
  FILE *f = fopen((dir + "/vc.cfg").c_str(), "w");
  fprintf(f, "-\nnosock %sfree:life=%ld exit=%d\nl%ld\n", ign ? "ign15 " : "", life, code, idx);
  fclose(f);
  return prog;
}

// A helper that is to ignore SIGTERM has done so only once it runs: wait until the kernel says so
// (SigIgn in /proc/<pid>/status), however long the machine takes to exec it.
static bool ignores_term(int pid)
{
  char path[64], line[256];
  snprintf(path, sizeof path, "/proc/%d/status", pid);
  for (int tries = 0; tries < 4000; tries++) {
    FILE *f = fopen(path, "r");
    if (!f) return false;
    unsigned long long ign = 0;
    bool zombie = false;
    while (fgets(line, sizeof line, f)) {
      if (!strncmp(line, "SigIgn:", 7)) ign = strtoull(line + 7, nullptr, 16);
      if (!strncmp(line, "State:", 6) && strchr(line, 'Z')) zombie = true;
    }
    fclose(f);
    if (ign & (1ULL << (SIGTERM - 1))) return true;
    if (zombie) return false;
    usleep(2500);
  }
  return false;
}

static long g_cur_case = -1;
static void on_alarm(int)
{
  char m[96];
  int n = snprintf(m, sizeof m, "W\twatchdog\tcase=%ld did not finish within 60 s\n", g_cur_case);
  if (write(1, m, static_cast<size_t>(n)) < 0) {}
  _exit(3);
}

struct Act {
  reproc::stop a;
  long to;
};

// What a policy must do to a child whose natural end lies between nat_min and nat_max ms after the
// moment the destructor is entered (t = 0), and which ignores SIGTERM or dies of it. Real time: how
// long a child takes to die of a signal is not known, so after a lethal signal later signals are
// optional (but, if sent, not before the waits in between have expired), and the child must be
// reaped only if a generous wait (>= 1 s or infinite) follows the lethal signal.
struct ESig {
  int sig;
  long earliest;
  bool optional;
};
struct Expect {
  std::vector<ESig> sigs;
  int reaped;    // 1 must be reaped, 0 must still be running, -1 not known
  long min_ms;   // the destructor cannot return before this
  bool unclear;  // a wait ends too close to the child's natural end: nothing is judged
};

static Expect model(const Act acts[3], long nat_min, long nat_max, bool ign, long deadline_left /* <0: none */, bool is_default)
{
  Expect e{ {}, 0, 0, false };
  long t = 0, lethal_t = -1;
  Act d[3] = { acts[0], acts[1], acts[2] };
  if (is_default) {
    d[0] = { reproc::stop::wait, deadline_left < 0 ? -1 : deadline_left };
    d[1] = { reproc::stop::terminate, -1 };
    d[2] = { reproc::stop::noop, 0 };
  }
  bool done = false;
  for (int i = 0; i < 3 && !done; i++) {
    if (d[i].a == reproc::stop::noop) continue;
    if (d[i].a == reproc::stop::terminate || d[i].a == reproc::stop::kill) {
      if (lethal_t < 0 && t >= nat_min) {
        e.unclear = true;  // the step is reached around the natural end
        return e;
      }
      int sg = d[i].a == reproc::stop::kill ? SIGKILL : SIGTERM;
      e.sigs.push_back({ sg, t, lethal_t >= 0 });
      if (lethal_t < 0 && (sg == SIGKILL || !ign)) lethal_t = t;
    }
    long to = d[i].to;  // (an ordinary timeout is not cut short by the deadline; only the default policy waits for the deadline)
    if (lethal_t >= 0) {
      if (to < 0 || to >= 1000) {
        e.reaped = 1;
        done = true;
      } else {
        t += to;
      }
    } else if (to < 0 || t + to >= nat_max) {
      e.reaped = 1;
      t = nat_min > t ? nat_min : t;
      done = true;
    } else if (t + to < nat_min) {
      t += to;
    } else {
      e.unclear = true;
      return e;
    }
  }
  if (!done && lethal_t >= 0) e.reaped = -1;
  e.min_ms = lethal_t >= 0 ? lethal_t : t;
  return e;
}

static void one_case(long idx)
{
  st_cases++;
  g_cur_case = idx;
  alarm(60);
  wrap_reset_case();
  g_sigs.clear();
  int family = static_cast<int>(idx % 8);
  static const long TOS[] = { 0, 25, 60, 110, 180 };
  Act acts[3];
  bool is_default = false, ign = rnd() % 2, moved = false, started = true;
  long life = 600000, deadline = -1, presleep = static_cast<long>(rnd() % 3) * 15;
  int code = static_cast<int>(rnd() % 200);
  auto T = [&]() { return TOS[rnd() % 5]; };
  switch (family) {
    case 0:  // three different steps, three different timeouts (any mix-up of slots or timeouts shifts a bound)
      acts[0] = { reproc::stop::wait, T() };
      acts[1] = { reproc::stop::terminate, T() };
      acts[2] = { reproc::stop::kill, 3000 };
      break;
    case 1:  // the last step is a long wait that the child's natural end satisfies
      acts[0] = { reproc::stop::noop, 0 };
      acts[1] = { reproc::stop::wait, TOS[1 + rnd() % 2] };
      acts[2] = { reproc::stop::wait, 3000 };
      life = 250 + static_cast<long>(rnd() % 200);
      break;
    case 2:  // default policy, deadline: SIGTERM only once the deadline has passed
      is_default = true;
      ign = false;
      deadline = 80 + static_cast<long>(rnd() % 3) * 60;
      break;
    case 3:  // default policy, the child ends in time: no signal at all
      is_default = true;
      deadline = rnd() % 2 ? -1 : 2500;
      life = 60 + static_cast<long>(rnd() % 150);
      break;
    case 4:  // every wait expires: the child is left running, and never signalled
      acts[0] = { reproc::stop::wait, T() };
      acts[1] = { reproc::stop::noop, 0 };
      acts[2] = { reproc::stop::wait, T() };
      break;
    case 5:  // random policy
      for (auto &a : acts) {
        int k = static_cast<int>(rnd() % 4);
        a = { k == 0 ? reproc::stop::noop : k == 1 ? reproc::stop::wait : k == 2 ? reproc::stop::terminate : reproc::stop::kill, T() };
      }
      if (rnd() % 3 == 0) life = 40 + static_cast<long>(rnd() % 200);
      if (acts[0].a == reproc::stop::noop && acts[1].a == reproc::stop::noop && acts[2].a == reproc::stop::noop && life > 1000)
        life = 60 + static_cast<long>(rnd() % 150);  // the default policy without a deadline waits for the child's own end
      break;
    case 6:  // the handle is moved: the moved-from object does nothing, the new one applies the policy
      acts[0] = { reproc::stop::terminate, T() };
      acts[1] = { reproc::stop::kill, 3000 };
      acts[2] = { reproc::stop::noop, 0 };
      moved = true;
      break;
    default:  // never started / failed start: the destructor touches no process
      started = false;
      acts[0] = { reproc::stop::terminate, 100 };
      acts[1] = { reproc::stop::kill, 100 };
      acts[2] = { reproc::stop::noop, 0 };
      break;
  }
  bool explicit_stop = !is_default;
  if (!is_default && acts[0].a == reproc::stop::noop && acts[1].a == reproc::stop::noop && acts[2].a == reproc::stop::noop)
    is_default = true;  // "all noop" is how the default policy is asked for
  reproc::options o;
  o.redirect.discard = true;
  if (explicit_stop)
    o.stop = { { acts[0].a, reproc::milliseconds(acts[0].to) }, { acts[1].a, reproc::milliseconds(acts[1].to) }, { acts[2].a, reproc::milliseconds(acts[2].to) } };
  if (deadline >= 0) o.deadline = reproc::milliseconds(deadline);
  std::string prog = started ? setup_child(idx, life, ign, code) : g_scratch + "/no-such-program";
  std::vector<std::string> args{ prog };
  int pid = -1;
  bool not_ready = false;
  int64_t t_begin = 0, t_started = 0, t0 = 0, t1 = 0;
  {
    reproc::process *p = new reproc::process();
    t_begin = mono_ms();
    std::error_code ec = (idx % 16 == 15) ? std::error_code() : p->start(args, o);   // half of the "never started" family does not even try
    t_started = mono_ms();
    if (started && ec) {
      printf("I\tstart failed: %s\n", ec.message().c_str());
      delete p;
      alarm(0);
      return;
    }
    if (started) {
      pid = p->pid().first;
      usleep(30000 + static_cast<useconds_t>(presleep) * 1000);
      if (ign && !ignores_term(pid)) not_ready = true;  // (10 s and still not there: the case is not judged)
    }
    if (moved && (idx / 8) % 2 == 1) {
      // move ASSIGNMENT onto an object that runs a child of its own (policy: kill, wait): that child must be
      // stopped by its policy there and then, the moved-from object must do nothing, and the assigned-to
      // object goes on with the moved child and its policy
      reproc::process *q = new reproc::process();
      reproc::options oa;
      oa.redirect.discard = true;
      oa.stop = { { reproc::stop::kill, reproc::milliseconds(3000) }, {}, {} };
      std::string proga = setup_child(idx + 5000000, 600000, 0, 3);
      std::vector<std::string> argsa{ proga };
      std::error_code eca = q->start(argsa, oa);
      int pida = eca ? -1 : q->pid().first;
      usleep(20000);
      size_t before = g_sigs.size();
      *q = std::move(*p);
      if (pida > 1) {
        bool ok = g_sigs.size() == before + 1 && g_sigs[before].pid == pida && g_sigs[before].sig == SIGKILL;
        int st = 0;
        pid_t w = waitpid(pida, &st, WNOHANG);
        if (!ok)
          viol("move-assignment-skips-stop-policy", idx, "assigning to a process object that runs a child (policy kill, wait 3 s) sent " + std::to_string(g_sigs.size() - before) + " signals instead of one SIGKILL to that child");
        if (w == 0) {
          viol("move-assignment-abandons-child", idx, "the child of the assigned-to process object is still running after the assignment");
          kill(pida, SIGKILL);
          waitpid(pida, &st, 0);
        } else if (w == pida) {
          viol("move-assignment-leaves-zombie", idx, "the child of the assigned-to process object was not reaped");
        }
      }
      before = g_sigs.size();
      delete p;  // moved-from
      if (g_sigs.size() != before) viol("moved-from-destructor-signals", idx, "destroying a moved-from process object sent a signal");
      p = q;
      st_moved++;
      std::string cmda = "rm -rf '" + g_scratch + "/l" + std::to_string(idx + 5000000) + "'";
      if (system(cmda.c_str()) != 0) {}
    } else if (moved) {
      reproc::process *q = new reproc::process(std::move(*p));
      size_t before = g_sigs.size();
      delete p;  // moved-from
      if (g_sigs.size() != before) viol("moved-from-destructor-signals", idx, "destroying a moved-from process object sent a signal");
      p = q;
      st_moved++;
    }
    if (getenv("CXXLIFE_DEBUG")) {
      auto r = p->wait(reproc::milliseconds(0));
      if (!r.second) printf("D\tcase=%ld child already ended with status %d, %ld ms after start (life %ld)\n", idx, r.first, static_cast<long>(mono_ms() - t_started), life);
    }
    t0 = mono_ms();
    delete p;
    t1 = mono_ms();
  }
  st_dtors++;
  long el = static_cast<long>(t1 - t0);
  char ctx[200];
  snprintf(ctx, sizeof ctx, "family %d, stop {%d:%ld, %d:%ld, %d:%ld}%s, deadline %ld, child lives %ld ms%s", family, static_cast<int>(acts[0].a), acts[0].to,
           static_cast<int>(acts[1].a), acts[1].to, static_cast<int>(acts[2].a), acts[2].to, is_default ? " (default)" : "", deadline, life, ign ? ", ignores SIGTERM" : "");
  if (!started) {
    if (!g_sigs.empty()) viol("destructor-signals-without-child", idx, std::string("a process object that never ran a child sent a signal; ") + ctx);
    st_nosig++;
    alarm(0);
    return;
  }
  // The child's life is counted from somewhere between t_begin and t_started (plus the time exec takes);
  // the deadline from somewhere in the same window.
  long nat_min = life - static_cast<long>(t0 - t_begin);
  long nat_max = life - static_cast<long>(t0 - t_started) + 300;
  if (nat_min < 0) nat_min = 0;
  long dl_left_min = deadline < 0 ? -1 : deadline - static_cast<long>(t0 - t_begin);
  if (dl_left_min < 0 && deadline >= 0) dl_left_min = 0;
  Expect e = model(acts, nat_min, nat_max, ign, dl_left_min, is_default);
  if (not_ready) e.unclear = true;
  std::vector<Sig> got;
  for (auto &s : g_sigs)
    if (s.t >= t0 - 1) got.push_back(s);
  if (e.unclear) {
    st_unclear++;
  } else if (life < 100000 && el > e.min_ms + SLOW_MS) {
    st_slow++;  // the child's natural end is part of this case and the machine is slow: not judged
  } else {
    if (el > e.min_ms + SLOW_MS) st_slow++;  // (lower bounds, signal kinds and the end state do not depend on speed)
    // signals: kinds and order must match (optional ones may be missing); times are lower bounds
    size_t j = 0;
    bool same = true;
    std::vector<long> due;
    for (size_t i = 0; i < e.sigs.size(); i++) {
      if (j < got.size() && got[j].sig == e.sigs[i].sig && got[j].pid == pid) {
        due.push_back(e.sigs[i].earliest);
        j++;
      } else if (!e.sigs[i].optional) {
        same = false;
      }
    }
    bool extra = j < got.size();
    if (!same || extra) {
      std::string g, x;
      for (auto &sg : got) g += std::to_string(sg.sig) + "@" + std::to_string(sg.t - t0) + " ";
      for (auto &sg : e.sigs) x += std::to_string(sg.sig) + "@>=" + std::to_string(sg.earliest) + (sg.optional ? "? " : " ");
      viol(extra && same ? "destructor-signals-extra" : got.size() < e.sigs.size() ? "destructor-signals-missing" : "destructor-signals-differ", idx,
           "signals sent [" + g + "], the policy says [" + x + "]; " + ctx);
    } else {
      for (size_t i = 0; i < got.size(); i++) {
        st_signals++;
        st_lower++;
        if (got[i].t - t0 < due[i] - SLACK_MS)
          viol("destructor-signal-early", idx, "signal " + std::to_string(got[i].sig) + " sent " + std::to_string(got[i].t - t0) + " ms into the destructor, not due before " +
                                                   std::to_string(due[i]) + " ms; " + ctx);
      }
      if (got.empty()) st_nosig++;
    }
    st_lower++;
    if (el < e.min_ms - SLACK_MS)
      viol("destructor-returns-early", idx, "the destructor returned after " + std::to_string(el) + " ms, the stop policy takes at least " + std::to_string(e.min_ms) + " ms; " + ctx);
    // end state
    int st = 0;
    pid_t w = waitpid(pid, &st, WNOHANG);
    if (e.reaped == 1) {
      if (w == 0)
        viol("destructor-abandons-child", idx, std::string("the stop policy ends with the child gone, but it is still running after the destructor; ") + ctx);
      else if (w == pid)
        viol("destructor-leaves-zombie", idx, std::string("the child has ended but was not reaped by the destructor; ") + ctx);
      else
        st_reaped++;
    } else if (e.reaped == 0) {
      if (w == 0)
        st_left++;  // legitimately left running: every wait of the policy expired
      else if (life >= 100000)
        viol("destructor-ends-child-against-policy", idx, std::string("every wait of the policy expires with the child alive and no signal is due, yet the child is gone after the destructor; ") + ctx);
    }
  }
  // clean up whatever is left (only ever our own child, pid > 1)
  if (pid > 1) {
    int st = 0;
    pid_t w = waitpid(pid, &st, WNOHANG);
    if (w == 0) {
      kill(pid, SIGKILL);
      waitpid(pid, &st, 0);
    }
  }
  alarm(0);
  std::string cmd = "rm -rf '" + g_scratch + "/l" + std::to_string(idx) + "'";
  if (system(cmd.c_str()) != 0) {}
}

int main(int argc, char **argv)
{
  if (argc < 7) return 2;
  wrap_init();
  wrap_reset_case();
  w_on_kill = on_kill;
  signal(SIGALRM, on_alarm);
  char *rp = realpath(argv[1], nullptr);
  g_vchild = rp ? rp : argv[1];
  g_scratch = argv[2];
  mkdir(g_scratch.c_str(), 0755);
  long w = atol(argv[3]), nw = atol(argv[4]);
  bool thorough = !strcmp(argv[5], "thorough");
  rs = static_cast<uint64_t>(atol(argv[6])) * 0x9E3779B97F4A7C15ULL + static_cast<uint64_t>(w) * 104729 + 11;
  long n = (thorough ? 4000 : 320) / nw;
  for (long i = 0; i < n; i++) one_case(i * nw + w);
  printf("S\t%ld\t%ld\t%ld\t%ld\t%ld\t%ld\t%ld\t%ld\t%ld\t%ld\t%ld\n", st_cases, st_viol, st_dtors, st_signals, st_lower, st_reaped, st_left, st_slow, st_moved, st_nosig, st_unclear);
  return st_viol ? 1 : 0;
}
