// Engine 'rt' (C08, real-clock cross-check of the virtual-time engines): the library runs on
// the real clock and the real kernel against free-running helper children that live for a
// given number of milliseconds. Lower bounds (never earlier than a timeout / deadline, never
// a status before the child can have ended) are sound in real time and are violations;
// upper bounds depend on the load of the machine and only count as "slow".
//
// usage: rt <vchild> <scratch> <widx> <nworkers> <tier> <seed>
#define _GNU_SOURCE
#include "common.h"
#include "wrap.h"

#include <errno.h>
#include <fcntl.h>
#include <signal.h>
#include <stdio.h>
#include <stdlib.h>
#include <string.h>
#include <sys/resource.h>
#include <sys/stat.h>
#include <sys/wait.h>
#include <time.h>
#include <unistd.h>

#include <reproc/reproc.h>

static const char *g_vchild, *g_scratch;
static long st_cases, st_viol, st_waits, st_polls, st_stops, st_lower, st_slow, st_timeouts, st_statuses,
    st_deadline_events;
static int g_case;

static int64_t mono_us(void)
{
  struct timespec ts;
  clock_gettime(CLOCK_MONOTONIC, &ts);
  return (int64_t) ts.tv_sec * 1000000 + ts.tv_nsec / 1000;
}

static void vio(const char *cls, const char *fmt, long a, long b, long c, long d)
{
  char m[300];
  snprintf(m, sizeof m, fmt, a, b, c, d);
  st_viol++;
  printf("V\t%s\tcase=%d\t%s\n", cls, g_case, m);
  fflush(stdout);
}

typedef struct {
  char dir[600];
  reproc_t *p;
  int64_t t_begin;  // just before reproc_start was called: nothing of this child can be earlier (us)
  int64_t t_start;  // when reproc_start returned (us)
  int life, code, deadline;
} kid;

static int start_kid(kid *k, int idx, int life, int code, int deadline, int ign15, reproc_stop_actions stop)
{
  memset(k, 0, sizeof *k);
  k->life = life;
  k->code = code;
  k->deadline = deadline;
  snprintf(k->dir, sizeof k->dir, "%s/c%dk%d", g_scratch, g_case, idx);
  mkdir(k->dir, 0755);
  char p[700];
  snprintf(p, sizeof p, "%s/vc", k->dir);
  unlink(p);
  if (link(g_vchild, p) < 0) return -1;
  char exe[700];
  snprintf(exe, sizeof exe, "%s", p);
  snprintf(p, sizeof p, "%s/vc.cfg", k->dir);
  FILE *f = fopen(p, "w");
  fprintf(f, "-\nnosock %sfree:life=%d exit=%d\nk%d\n", ign15 ? "ign15 " : "", life, code, idx);
  fclose(f);
  k->p = reproc_new();
  const char *argv[] = { exe, NULL };
  reproc_options o = { 0 };
  o.redirect.discard = true;
  o.deadline = deadline;
  o.stop = stop;
  k->t_begin = mono_us();
  int r = reproc_start(k->p, argv, o);
  k->t_start = mono_us();
  return r;
}

static void end_kid(kid *k)
{
  // the stop policy given at start ends it (kill, wait forever) - nothing is left behind
  if (k->p) reproc_destroy(k->p);
  char p[700];
  snprintf(p, sizeof p, "%s/vc", k->dir);
  unlink(p);
  snprintf(p, sizeof p, "%s/vc.cfg", k->dir);
  unlink(p);
  rmdir(k->dir);
}

#define SLACK_MS 2        // ms granularity of the library's clock and of poll
#define CERTAIN_MS 400    // a child that was to live L ms has certainly ended L + this after start
#define SLOW_MS 1500      // later than this past a bound: counted as slow (machine load), not judged

#define KILL_STOP ((reproc_stop_actions){ { REPROC_STOP_KILL, -1 }, { REPROC_STOP_NOOP, 0 }, { REPROC_STOP_NOOP, 0 } })

static void case_wait(uint32_t x)
{
  static const int TS[] = { 0, 20, 60, 150 }, LS[] = { 5, 100, 400 }, DS[] = { 0, 0, 50, 250 };
  int T = TS[x % 4], L = LS[(x >> 2) % 3], D = DS[(x >> 4) % 4], code = (int) ((x >> 8) % 200);
  int mode = (int) ((x >> 16) % 3);  // 0: timeout T, 1: until the deadline (needs D), 2: pause first, then T
  if (mode == 1 && !D) mode = 0;
  kid k;
  if (start_kid(&k, 0, L, code, D, 0, KILL_STOP) < 0) {
    printf("I\tstart failed in case_wait\n");
    end_kid(&k);
    return;
  }
  if (mode == 2) usleep(30000);
  int64_t t0 = mono_us();
  int r = reproc_wait(k.p, mode == 1 ? REPROC_DEADLINE : T);
  int64_t t1 = mono_us();
  long el = (long) ((t1 - t0) / 1000), since_start0 = (long) ((t0 - k.t_start) / 1000), since_start1 = (long) ((t1 - k.t_begin) / 1000);
  st_waits++;
  // the deadline was fixed somewhere inside reproc_start: not before t_begin
  long eff = mode == 1 ? D - (long) ((t0 - k.t_begin) / 1000) : T;
  if (eff < 0) eff = 0;
  if (r == REPROC_ETIMEDOUT) {
    st_timeouts++;
    st_lower++;
    if (el < eff - SLACK_MS)
      vio("wait-timeout-early", "ETIMEDOUT after %ld ms, the bound was %ld ms (timeout %ld, deadline %ld)", el, eff, T, D);
    if (since_start0 > L + CERTAIN_MS)
      vio("wait-timeout-although-exited", "ETIMEDOUT from a wait that began %ld ms after start; the child lives %ld ms", since_start0, L, 0, 0);
    if (el > eff + SLOW_MS) st_slow++;
  } else if (r >= 0) {
    st_statuses++;
    st_lower++;
    if (r != code) vio("wait-wrong-status", "status %ld, the child exits with %ld", r, code, 0, 0);
    if (since_start1 < L - SLACK_MS)
      vio("wait-status-before-exit", "status after %ld ms, the child lives %ld ms", since_start1, L, 0, 0);
  } else {
    vio("wait-unexpected-error", "wait returned %ld (timeout %ld, deadline %ld)", r, T, D, 0);
  }
  end_kid(&k);
}

static void case_poll(uint32_t x)
{
  static const int TS[] = { 0, 30, 80, -1 }, DS[] = { 0, 40, 120 }, LS[] = { 10, 200, 600 };
  int n = 1 + (int) (x % 2);
  int T = TS[(x >> 1) % 4];
  kid k[2];
  int ds[2], ls[2];
  for (int i = 0; i < n; i++) {
    ds[i] = DS[(x >> (4 + 2 * i)) % 3];
    ls[i] = LS[(x >> (8 + 2 * i)) % 3];
    if (start_kid(&k[i], i, ls[i], 10 + i, ds[i], 0, KILL_STOP) < 0) {
      printf("I\tstart failed in case_poll\n");
      for (int j = 0; j <= i; j++) end_kid(&k[j]);
      return;
    }
  }
  if (T < 0) {
    // an unbounded poll needs something that ends it
    int any = 0;
    for (int i = 0; i < n; i++) any |= ds[i] != 0 || ls[i] < 100000;
    if (!any) T = 80;
  }
  reproc_event_source src[2];
  for (int i = 0; i < n; i++) {
    src[i].process = k[i].p;
    src[i].interests = REPROC_EVENT_EXIT;
    src[i].events = 0;
  }
  int64_t t0 = mono_us();
  int r = reproc_poll(src, (size_t) n, T);
  int64_t t1 = mono_us();
  long el = (long) ((t1 - t0) / 1000);
  st_polls++;
  if (r == 0) {
    st_timeouts++;
    st_lower++;
    if (T < 0) vio("poll-zero-from-infinite", "0 from an unbounded poll after %ld ms", el, 0, 0, 0);
    else if (el < T - SLACK_MS) vio("poll-timeout-early", "0 after %ld ms, timeout %ld", el, T, 0, 0);
    for (int i = 0; i < n; i++)
      if (src[i].events) vio("poll-events-with-zero", "ret 0 but source %ld has events %ld", i, src[i].events, 0, 0);
    if (T >= 0 && el > T + SLOW_MS) st_slow++;
  } else if (r > 0) {
    int cnt = 0;
    for (int i = 0; i < n; i++) {
      int e = src[i].events;
      if (e) cnt++;
      if (e & ~(REPROC_EVENT_EXIT | REPROC_EVENT_DEADLINE)) vio("poll-event-outside-interests", "source %ld events %ld", i, e, 0, 0);
      long since = (long) ((t1 - k[i].t_begin) / 1000);
      if (e & REPROC_EVENT_DEADLINE) {
        st_deadline_events++;
        st_lower++;
        if (!ds[i]) vio("poll-deadline-without-deadline", "source %ld has no deadline", i, 0, 0, 0);
        else if (since < ds[i] - SLACK_MS) vio("poll-deadline-early", "DEADLINE %ld ms after start, deadline %ld", since, ds[i], 0, 0);
        if (T >= 0 && el > T + SLACK_MS + 50 && since > ds[i] + SLOW_MS) st_slow++;
      }
      if (e & REPROC_EVENT_EXIT) {
        st_lower++;
        if (since < ls[i] - SLACK_MS) vio("poll-exit-before-exit", "EXIT %ld ms after start, the child lives %ld ms", since, ls[i], 0, 0);
      }
    }
    if (cnt != r) vio("poll-wrong-count", "ret %ld, %ld sources with events", r, cnt, 0, 0);
  } else {
    vio("poll-unexpected-error", "poll returned %ld", r, 0, 0, 0);
  }
  for (int i = 0; i < n; i++) end_kid(&k[i]);
}

static void case_stop(uint32_t x)
{
  int ign = (int) (x & 1), t1w = (x & 2) ? 60 : 120, L = (x & 4) ? 30 : 2000, code = 7;
  // terminate, wait t1w; then kill, wait forever
  reproc_stop_actions s = { { REPROC_STOP_TERMINATE, t1w }, { REPROC_STOP_KILL, REPROC_INFINITE }, { 0 } };
  kid k;
  if (start_kid(&k, 0, L, code, 0, ign, KILL_STOP) < 0) {
    printf("I\tstart failed in case_stop\n");
    end_kid(&k);
    return;
  }
  usleep(20000);
  if (ign) {
    // the helper ignores SIGTERM only once it runs: wait until the kernel says so, however long the exec takes
    char path[64], line[256];
    snprintf(path, sizeof path, "/proc/%d/status", reproc_pid(k.p));
    int ready = 0;
    for (int tries = 0; tries < 4000 && !ready; tries++) {
      FILE *f = fopen(path, "r");
      if (!f) break;
      unsigned long long ig = 0;
      int zombie = 0;
      while (fgets(line, sizeof line, f)) {
        if (!strncmp(line, "SigIgn:", 7)) ig = strtoull(line + 7, NULL, 16);
        if (!strncmp(line, "State:", 6) && strchr(line, 'Z')) zombie = 1;
      }
      fclose(f);
      if (ig & (1ULL << (SIGTERM - 1))) ready = 1;
      else if (zombie) break;
      else usleep(2500);
    }
    if (!ready) {
      printf("I\thelper never got to ignore SIGTERM (case_stop)\n");
      end_kid(&k);
      return;
    }
  }
  int64_t t0 = mono_us();
  int r = reproc_stop(k.p, s);
  int64_t t1 = mono_us();
  long el = (long) ((t1 - t0) / 1000);
  st_stops++;
  st_lower++;
  if (ign && L > 1000) {
    // ignores SIGTERM and outlives the first wait: only SIGKILL ends it, and not before the wait expired
    if (r != 128 + SIGKILL) vio("stop-wrong-status", "stop returned %ld, expected %ld (SIGTERM ignored, then SIGKILL)", r, 128 + SIGKILL, 0, 0);
    if (el < t1w - SLACK_MS) vio("stop-escalated-early", "SIGKILL step reached after %ld ms, the terminate wait is %ld ms", el, t1w, 0, 0);
    if (el > t1w + SLOW_MS) st_slow++;
  } else if (!ign && L > 1000) {
    if (r != 128 + SIGTERM) vio("stop-wrong-status", "stop returned %ld, expected %ld (dies on SIGTERM)", r, 128 + SIGTERM, 0, 0);
    if (el > SLOW_MS) st_slow++;
  } else {
    // short-lived child: it may end by itself, by SIGTERM, or (ignoring SIGTERM) exit with its code
    if (r != code && r != 128 + SIGTERM && r != 128 + SIGKILL) vio("stop-wrong-status", "stop returned %ld", r, 0, 0, 0);
    if (ign && r == 128 + SIGTERM) vio("stop-wrong-status", "status says SIGTERM but the child ignores it (%ld)", r, 0, 0, 0);
  }
  end_kid(&k);
}

// Many children at once, polled together (more sources than a quarter of the descriptor limit).
static long st_many_children;
static void case_many(uint32_t x)
{
  enum { MAXK = 300 };
  int n = 260 + (int) (x % 35);  // 260..294 children (more than a quarter of the limit), one descriptor each in the parent
  static kid ks[MAXK];
  static reproc_event_source src[MAXK];
  struct rlimit rl, old;
  getrlimit(RLIMIT_NOFILE, &old);
  rl = old;
  rl.rlim_cur = 1024;
  setrlimit(RLIMIT_NOFILE, &rl);
  int started = 0;
  for (int i = 0; i < n; i++) {
    int life = 40 + (int) ((x >> 3) + (uint32_t) i * 7) % 160;
    if (start_kid(&ks[i], i, life, i % 200, 0, 0, KILL_STOP) < 0) {
      printf("I\tstart failed in case_many at child %d\n", i);
      break;
    }
    started++;
  }
  st_many_children += started;
  int reported[MAXK] = { 0 }, left = started, rounds = 0;
  int64_t t0 = mono_us();
  while (left > 0 && rounds++ < 4000 && mono_us() - t0 < 20000000) {
    int m = 0, idx[MAXK];
    for (int i = 0; i < started; i++)
      if (!reported[i]) {
        src[m].process = ks[i].p;
        src[m].interests = REPROC_EVENT_EXIT;
        src[m].events = 0;
        idx[m++] = i;
      }
    int r = reproc_poll(src, (size_t) m, 500);
    st_polls++;
    if (r < 0) {
      vio("many-poll-error", "poll over %ld sources (descriptor limit 1024) returned %ld", m, r, 0, 0);
      break;
    }
    int cnt = 0;
    for (int j = 0; j < m; j++)
      if (src[j].events) {
        cnt++;
        int i = idx[j];
        long since = (long) ((mono_us() - ks[i].t_begin) / 1000);
        if (src[j].events & ~REPROC_EVENT_EXIT) vio("many-poll-event-outside-interests", "source %ld events %ld", j, src[j].events, 0, 0);
        if (since < ks[i].life - SLACK_MS) vio("many-poll-exit-before-exit", "EXIT for child %ld after %ld ms, it lives %ld ms", i, since, ks[i].life, 0);
        int st = reproc_wait(ks[i].p, 0);
        st_lower++;
        if (st != ks[i].code) vio("many-wrong-status", "child %ld: wait(0) after its EXIT event returned %ld, it exits with %ld", i, st, ks[i].code, 0);
        reported[i] = 1;
        left--;
      }
    if (cnt != r) vio("many-poll-wrong-count", "ret %ld, %ld sources with events", r, cnt, 0, 0);
  }
  if (left > 0 && rounds < 4000) st_slow++;
  for (int i = 0; i < started; i++) end_kid(&ks[i]);
  setrlimit(RLIMIT_NOFILE, &old);
}

int main(int argc, char **argv)
{
  if (argc < 7) return 2;
  g_vchild = realpath(argv[1], NULL);
  g_scratch = argv[2];
  int widx = atoi(argv[3]), nw = atoi(argv[4]);
  int thorough = !strcmp(argv[5], "thorough");
  uint32_t seed = (uint32_t) atol(argv[6]);
  mkdir(g_scratch, 0755);
  signal(SIGPIPE, SIG_IGN);
  wrap_init();
  wrap_reset_case();
  alarm(thorough ? 3000 : 600);
  int total = thorough ? 2400 : 480;
  for (int c = widx; c < total; c += nw) {
    g_case = c;
    uint32_t x = (seed * 2654435761u) ^ ((uint32_t) c * 40503u + 12345u);
    x ^= x << 13; x ^= x >> 17; x ^= x << 5;
    wrap_reset_case();
    st_cases++;
    if (c % 80 == 41) case_many(x);
    else if (c % 6 < 3) case_wait(x);
    else if (c % 6 < 5) case_poll(x);
    else case_stop(x);
  }
  printf("S\t%ld\t%ld\t%ld\t%ld\t%ld\t%ld\t%ld\t%ld\t%ld\t%ld\t%u\t%ld\n", st_cases, st_viol, st_waits, st_polls, st_stops, st_lower,
         st_slow, st_timeouts, st_statuses, st_deadline_events, W->n_badtarget, st_many_children);
  return 0;
}
