// Engine 'examples' (part of C05): the example programs of the repository - the usage the authors
// themselves show - run against the interposed library under ASan/UBSan with the ownership ledger
// on. After the example's main() returns: nothing may be owned, no allocation live, no close/free
// of a foreign object, the descriptor table as before, no child left, no signal aimed at anything
// that is not a live child.   usage: exdrv <args of the example...>   (the example's main is
// renamed to example_main at compile time)
#define _GNU_SOURCE
#include "wrap.h"

#include <dirent.h>
#include <errno.h>
#include <fcntl.h>
#include <stdio.h>
#include <stdlib.h>
#include <string.h>
#include <sys/stat.h>
#include <sys/wait.h>
#include <unistd.h>

int example_main(int argc, const char **argv);

static int fd_table(int *fds, int cap)
{
  int n = 0;
  DIR *d = opendir("/proc/self/fd");
  if (!d) return 0;
  int dfd = dirfd(d);
  struct dirent *e;
  while ((e = readdir(d)))
    if (e->d_name[0] != '.' && atoi(e->d_name) != dfd && n < cap) fds[n++] = atoi(e->d_name);
  closedir(d);
  return n;
}

static int cmp(const void *a, const void *b) { return *(const int *) a - *(const int *) b; }

int main(int argc, const char **argv)
{
  // the examples that start themselves again as a child ("poll child") must not be monitored twice
  int is_child = argc > 1 && strcmp(argv[1], "child") == 0;
  wrap_init();
  wrap_reset_case();
  w_ledger = !is_child;
  int before[256], after[256];
  int nb = fd_table(before, 256);
  int r = example_main(argc, argv);
  if (is_child) return r;
  fflush(stdout);
  int na = fd_table(after, 256);
  qsort(before, (size_t) nb, sizeof(int), cmp);
  qsort(after, (size_t) na, sizeof(int), cmp);
  int same = nb == na && memcmp(before, after, (size_t) nb * sizeof(int)) == 0;
  int owned[64];
  int nowned = wrap_owned_fds(owned, 64);
  int left = 0;
  while (waitpid(-1, NULL, WNOHANG) > 0) left++;   // zombies the example left unreaped
  int running = waitpid(-1, NULL, WNOHANG) == 0;     // children still alive
  fprintf(stderr, "\nEXDRV\tret=%d\towned_fds=%d\tlive_allocs=%d\tforeign_close=%u\tdouble_close=%u\tunknown_free=%u\tbadtarget=%u\tfd_table_same=%d\tzombies=%d\trunning=%d\n",
          r, nowned, wrap_live_allocs(), W->n_foreign_close, W->n_double_close, W->n_unknown_free, W->n_badtarget, same, left, running);
  return r;
}
