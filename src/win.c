// Engine 'win' (C18): runs reproc's Windows command-line / environment-block code on Linux
// against stubbed Win32 functions and checks it with an independent decoder.
//
// usage: win <worker> <nworkers> <tier> <seed>
//        win --one <hex-arg>[,<hex-arg>...]          (decode one argument vector verbosely)
#define _GNU_SOURCE
#include <windows.h>  // the stub in /verif/stubs

#include <errno.h>
#include <pthread.h>
#include <stdio.h>
#include <stdlib.h>

#include "process.h"
#include "wrap.h"

const int REPROC_SIGKILL = 137;
const int REPROC_SIGTERM = 143;

// ---------------------------------------------------------------- Win32 stubs
static __thread DWORD last_error;
void SetLastError(DWORD e) { last_error = e; }
DWORD GetLastError(void) { return last_error; }
// what the library told Win32 about handles (the Windows halves of C10 / C11, as far as they can be
// observed at the CreateProcessW boundary)
static __thread int win_fail_at;   // 1 SetHandleInformation, 2 InitializeProcThreadAttributeList (filling call), 3 UpdateProcThreadAttribute, 4 CreateProcessW
static __thread DWORD win_fail_err;
static __thread int n_attr_deleted;
static __thread HANDLE rec_inheritable[16], rec_list[16], rec_closed[16], rec_std[3];
static __thread int n_inheritable, n_list, n_closed, rec_inherit_flag, rec_std_flag, rec_ext_flag, rec_has_list;
BOOL SetHandleInformation(HANDLE h, DWORD mask, DWORD flags)
{
  if (win_fail_at == 1) { SetLastError(win_fail_err); return 0; }
  if ((mask & HANDLE_FLAG_INHERIT) && (flags & HANDLE_FLAG_INHERIT) && n_inheritable < 16) rec_inheritable[n_inheritable++] = h;
  return 1;
}
struct verif_attr_list { HANDLE *handles; size_t n; int dummy[4]; };   // Windows keeps the caller's pointer, not a copy
BOOL InitializeProcThreadAttributeList(LPPROC_THREAD_ATTRIBUTE_LIST l, DWORD n, DWORD flags, SIZE_T *size)
{
  (void) n; (void) flags;
  if (l == NULL) {
    *size = sizeof(struct verif_attr_list);
    SetLastError(ERROR_INSUFFICIENT_BUFFER);
    return 0;
  }
  if (win_fail_at == 2) { SetLastError(win_fail_err); return 0; }
  memset(l, 0, sizeof(struct verif_attr_list));
  return 1;
}
BOOL UpdateProcThreadAttribute(LPPROC_THREAD_ATTRIBUTE_LIST l, DWORD flags, uintptr_t attr, LPVOID value, SIZE_T size,
                               LPVOID prev, SIZE_T *ret)
{
  (void) l; (void) flags; (void) prev; (void) ret;
  if (win_fail_at == 3) { SetLastError(win_fail_err); return 0; }
  if (attr == PROC_THREAD_ATTRIBUTE_HANDLE_LIST) {
    l->handles = (HANDLE *) value;
    l->n = size / sizeof(HANDLE);
  }
  return 1;
}
void DeleteProcThreadAttributeList(LPPROC_THREAD_ATTRIBUTE_LIST l) { (void) l; n_attr_deleted++; }
UINT SetErrorMode(UINT mode) { (void) mode; return 0; }
// process ids are derived from the handle so that "the right process" is checkable
static DWORD pid_of(HANDLE h) { return (DWORD) ((uintptr_t) h * 7 + 11); }
static DWORD scripted_exit_code, rec_wait_ms, rec_ctrl_event, rec_ctrl_group, rec_term_code;
static HANDLE rec_wait_handle, rec_code_handle, rec_term_handle;
static int n_ctrl, n_term, n_wait;
DWORD GetProcessId(HANDLE h) { return pid_of(h); }
// a process that is still on its way out (its exit pipe is closed, the process object not yet signalled): a finite
// wait times out and the exit code reads STILL_ACTIVE until somebody waits for as long as it takes
static int proc_still_running;
static int life_fail_at;   // 1 WaitForSingleObject, 2 GetExitCodeProcess, 3 GenerateConsoleCtrlEvent, 4 TerminateProcess
static DWORD life_fail_err;
DWORD WaitForSingleObject(HANDLE h, DWORD ms)
{
  rec_wait_handle = h;
  rec_wait_ms = ms;
  n_wait++;
  if (life_fail_at == 1) { SetLastError(life_fail_err); return WAIT_FAILED; }
  if (proc_still_running) {
    if (ms != INFINITE) return WAIT_TIMEOUT;
    proc_still_running = 0;
  }
  return 0;
}
BOOL GetExitCodeProcess(HANDLE h, DWORD *code)
{
  rec_code_handle = h;
  if (life_fail_at == 2) { SetLastError(life_fail_err); return 0; }
  *code = proc_still_running ? STILL_ACTIVE : scripted_exit_code;
  return 1;
}
BOOL GenerateConsoleCtrlEvent(DWORD ev, DWORD group)
{
  rec_ctrl_event = ev; rec_ctrl_group = group; n_ctrl++;
  if (life_fail_at == 3) { SetLastError(life_fail_err); return 0; }
  return 1;
}
BOOL TerminateProcess(HANDLE h, UINT code)
{
  rec_term_handle = h; rec_term_code = code; n_term++;
  if (life_fail_at == 4) { SetLastError(life_fail_err); return 0; }
  return 1;
}
BOOL CloseHandle(HANDLE h)
{
  if (n_closed < 16) rec_closed[n_closed++] = h;
  return 1;
}

// parent environment block prescribed by the case
static wchar_t *parent_block;
static size_t parent_units;
wchar_t *GetEnvironmentStringsW(void)
{
  wchar_t *c = malloc((parent_units ? parent_units : 1) * sizeof(wchar_t));
  if (parent_units) memcpy(c, parent_block, parent_units * sizeof(wchar_t));
  else c[0] = 0;
  return c;
}
BOOL FreeEnvironmentStringsW(wchar_t *block) { free(block); return 1; }

// captured by CreateProcessW
static __thread wchar_t *cap_cmd, *cap_env;
static __thread size_t cap_env_units;
static __thread int create_calls;
BOOL CreateProcessW(LPCWSTR app, LPWSTR cmdline, LPSECURITY_ATTRIBUTES pa, LPSECURITY_ATTRIBUTES ta, BOOL inherit,
                    DWORD flags, LPVOID env, LPCWSTR cwd, LPSTARTUPINFOW si, LPPROCESS_INFORMATION pi)
{
  (void) app; (void) pa; (void) ta; (void) cwd;
  create_calls++;
  rec_inherit_flag = inherit ? 1 : 0;
  rec_ext_flag = (flags & EXTENDED_STARTUPINFO_PRESENT) ? 1 : 0;
  rec_std_flag = (si->dwFlags & STARTF_USESTDHANDLES) ? 1 : 0;
  rec_std[0] = si->hStdInput;
  rec_std[1] = si->hStdOutput;
  rec_std[2] = si->hStdError;
  rec_has_list = rec_ext_flag && ((STARTUPINFOEXW *) si)->lpAttributeList != NULL;
  n_list = 0;
  if (rec_has_list) {
    struct verif_attr_list *al = ((STARTUPINFOEXW *) si)->lpAttributeList;
    for (size_t i = 0; al->handles && i < al->n && n_list < 16; i++) rec_list[n_list++] = al->handles[i];   // read now, through the pointer
  }
  if (win_fail_at == 4) { SetLastError(win_fail_err); return 0; }
  free(cap_cmd);
  free(cap_env);
  size_t n = wcslen(cmdline);
  cap_cmd = malloc((n + 1) * sizeof(wchar_t));
  memcpy(cap_cmd, cmdline, (n + 1) * sizeof(wchar_t));
  // walk the block the way Windows does: strings until an empty one (ASan checks every read)
  const wchar_t *e = env;
  size_t units = 0;
  while (e[units] != 0) units += wcslen(e + units) + 1;
  units++;
  cap_env = malloc(units * sizeof(wchar_t));
  memcpy(cap_env, e, units * sizeof(wchar_t));
  cap_env_units = units;
  pi->hProcess = (HANDLE) (intptr_t) 0x1000;
  pi->hThread = (HANDLE) (intptr_t) 0x2000;
  return 1;
}

// strict UTF-8 -> UTF-16 (one unit per wchar_t)
int MultiByteToWideChar(UINT cp, DWORD flags, LPCCH src, int srclen, LPWSTR dst, int dstlen)
{
  (void) cp;
  size_t n = srclen < 0 ? strlen(src) + 1 : (size_t) srclen;
  const unsigned char *s = (const unsigned char *) src;
  int out = 0;
  for (size_t i = 0; i < n;) {
    uint32_t c = s[i];
    int len = c < 0x80 ? 1 : (c >> 5) == 6 ? 2 : (c >> 4) == 14 ? 3 : (c >> 3) == 30 ? 4 : 0;
    int ok = len > 0 && i + (size_t) len <= n;
    if (ok && len > 1) {
      c &= 0xFFu >> (len + 1);
      for (int k = 1; k < len; k++) {
        if ((s[i + (size_t) k] & 0xC0) != 0x80) ok = 0;
        c = (c << 6) | (s[i + (size_t) k] & 0x3F);
      }
      if (ok && ((len == 2 && c < 0x80) || (len == 3 && c < 0x800) || (len == 4 && (c < 0x10000 || c > 0x10FFFF)) ||
                 (c >= 0xD800 && c <= 0xDFFF)))
        ok = 0;
    }
    if (!ok) {
      if (flags & MB_ERR_INVALID_CHARS) {
        SetLastError(ERROR_NO_UNICODE_TRANSLATION);
        return 0;
      }
      c = 0xFFFD;
      len = 1;
    }
    int units = c >= 0x10000 ? 2 : 1;
    if (dstlen > 0) {
      if (out + units > dstlen) {
        SetLastError(ERROR_INSUFFICIENT_BUFFER);
        return 0;
      }
      if (units == 2) {
        c -= 0x10000;
        dst[out] = (wchar_t) (0xD800 + (c >> 10));
        dst[out + 1] = (wchar_t) (0xDC00 + (c & 0x3FF));
      } else {
        dst[out] = (wchar_t) c;
      }
    }
    out += units;
    i += (size_t) len;
  }
  return out;
}

// ---------------------------------------------------------------- independent decoders
typedef struct {
  unsigned char *p;
  size_t n;
} bstr;

static void put_utf8(bstr *b, uint32_t c)
{
  unsigned char t[4];
  int n;
  if (c < 0x80) { t[0] = (unsigned char) c; n = 1; }
  else if (c < 0x800) { t[0] = (unsigned char) (0xC0 | (c >> 6)); t[1] = (unsigned char) (0x80 | (c & 0x3F)); n = 2; }
  else if (c < 0x10000) { t[0] = (unsigned char) (0xE0 | (c >> 12)); t[1] = (unsigned char) (0x80 | ((c >> 6) & 0x3F)); t[2] = (unsigned char) (0x80 | (c & 0x3F)); n = 3; }
  else { t[0] = (unsigned char) (0xF0 | (c >> 18)); t[1] = (unsigned char) (0x80 | ((c >> 12) & 0x3F)); t[2] = (unsigned char) (0x80 | ((c >> 6) & 0x3F)); t[3] = (unsigned char) (0x80 | (c & 0x3F)); n = 4; }
  b->p = realloc(b->p, b->n + (size_t) n + 1);
  memcpy(b->p + b->n, t, (size_t) n);
  b->n += (size_t) n;
  b->p[b->n] = 0;
}

static bstr utf16_to_utf8(const wchar_t *w, size_t units)
{
  bstr b = { calloc(1, 1), 0 };
  for (size_t i = 0; i < units; i++) {
    uint32_t c = (uint32_t) w[i];
    if (c >= 0xD800 && c <= 0xDBFF && i + 1 < units && (uint32_t) w[i + 1] >= 0xDC00 && (uint32_t) w[i + 1] <= 0xDFFF) {
      c = 0x10000 + ((c - 0xD800) << 10) + ((uint32_t) w[i + 1] - 0xDC00);
      i++;
    }
    put_utf8(&b, c);
  }
  return b;
}

// The documented Windows rules (Microsoft C runtime / CommandLineToArgvW) for everything after
// the program name: blanks (space, tab) separate arguments outside quotes; 2n backslashes + quote
// -> n backslashes and the quote toggles quoting; 2n+1 backslashes + quote -> n backslashes and a
// literal quote; backslashes not followed by a quote are literal. Returns the number of arguments
// (program name excluded); args[i] are UTF-16 strings allocated here.
static int split_cmdline(const wchar_t *cmd, wchar_t **args, size_t *lens, int maxargs)
{
  const wchar_t *p = cmd;
  // program name: up to the closing quote if quoted, else up to a blank
  if (*p == L'"') {
    p++;
    while (*p && *p != L'"') p++;
    if (*p == L'"') p++;
  } else {
    while (*p && *p != L' ' && *p != L'\t') p++;
  }
  int n = 0;
  for (;;) {
    while (*p == L' ' || *p == L'\t') p++;
    if (!*p) break;
    if (n >= maxargs) return -1;
    size_t cap = wcslen(p) + 1, len = 0;
    wchar_t *out = malloc(cap * sizeof(wchar_t));
    int inq = 0;
    for (;;) {
      size_t bs = 0;
      while (*p == L'\\') { p++; bs++; }
      if (*p == L'"') {
        for (size_t k = 0; k < bs / 2; k++) out[len++] = L'\\';
        if (bs % 2) {
          out[len++] = L'"';
        } else if (inq && p[1] == L'"') {
          out[len++] = L'"';  // "" inside quotes: literal quote (never produced by correct escaping)
          p++;
        } else {
          inq = !inq;
        }
        p++;
        continue;
      }
      for (size_t k = 0; k < bs; k++) out[len++] = L'\\';
      if (!*p || (!inq && (*p == L' ' || *p == L'\t'))) break;
      out[len++] = *p++;
    }
    out[len] = 0;
    args[n] = out;
    lens[n] = len;
    n++;
  }
  return n;
}

// ---------------------------------------------------------------- checks
static long st_cmd_cases, st_env_cases, st_viol, st_alloc_runs, st_alloc_fired, st_args, st_env_entries, st_distinct, st_win_alloc_faults;
static int verbose;

static void hexs(const char *s, char *out, size_t cap)
{
  size_t n = strlen(s), o = 0;
  for (size_t i = 0; i < n && o + 3 < cap; i++) o += (size_t) snprintf(out + o, cap - o, "%02x", (unsigned char) s[i]);
  out[o] = 0;
}

static void report(const char *cls, const char *const *argv, const char *msg)
{
  st_viol++;
  printf("V\t%s\t", cls);
  for (int i = 1; argv && argv[i]; i++) {
    char hx[700];
    hexs(argv[i], hx, sizeof hx);
    printf("%s%s", i > 1 ? "," : "", hx[0] ? hx : "");
    if (i > 12) break;
  }
  printf("\t%s\n", msg);
}

static int start(const char *const *argv, REPROC_ENV beh, const char *const *extra)
{
  HANDLE h = INVALID_HANDLE_VALUE;
  struct process_options o;
  memset(&o, 0, sizeof o);
  o.env.behavior = beh;
  o.env.extra = extra;
  o.handle.in = (HANDLE) (intptr_t) 0x10;
  o.handle.out = (HANDLE) (intptr_t) 0x20;
  o.handle.err = (HANDLE) (intptr_t) 0x30;
  o.handle.exit = (HANDLE) (intptr_t) 0x40;
  create_calls = 0;
  return process_start(&h, argv, o);
}

static void check_cmdline(const char *const *argv)
{
  st_cmd_cases++;
  int r = start(argv, REPROC_ENV_EMPTY, NULL);
  if (r < 0 || create_calls != 1) {
    char m[100];
    snprintf(m, sizeof m, "process_start returned %d (CreateProcessW calls: %d)", r, create_calls);
    report("start-failed", argv, m);
    return;
  }
  int want = 0;
  while (argv[1 + want]) want++;
  wchar_t *args[64];
  size_t lens[64];
  int n = split_cmdline(cap_cmd, args, lens, 64);
  st_args += want;
  char msg[400];
  if (n != want) {
    bstr c = utf16_to_utf8(cap_cmd, wcslen(cap_cmd));
    char hx[300];
    hexs((char *) c.p, hx, sizeof hx);
    snprintf(msg, sizeof msg, "command line (hex) %s splits into %d arguments, %d were passed", hx, n, want);
    report(want > n ? "argument-lost" : "argument-split", argv, msg);
    free(c.p);
  } else {
    for (int i = 0; i < n; i++) {
      bstr b = utf16_to_utf8(args[i], lens[i]);
      if (b.n != strlen(argv[1 + i]) || memcmp(b.p, argv[1 + i], b.n) != 0) {
        bstr c = utf16_to_utf8(cap_cmd, wcslen(cap_cmd));
        char hx[300];
        hexs((char *) c.p, hx, sizeof hx);
        snprintf(msg, sizeof msg, "argument %d decodes differently; command line (hex) %s", i, hx);
        report("argument-changed", argv, msg);
        free(c.p);
        free(b.p);
        break;
      }
      free(b.p);
    }
  }
  if (verbose) {
    bstr c = utf16_to_utf8(cap_cmd, wcslen(cap_cmd));
    printf("I\tcmdline=[%s] args=%d\n", c.p, n);
    free(c.p);
  }
  for (int i = 0; i < n && i < 64; i++) free(args[i]);
}

static void set_parent(const char *const *entries)
{
  free(parent_block);
  parent_block = NULL;
  parent_units = 0;
  if (!entries) return;
  size_t cap = 1;
  for (int i = 0; entries[i]; i++) cap += strlen(entries[i]) + 1;
  parent_block = calloc(cap, sizeof(wchar_t));
  size_t u = 0;
  for (int i = 0; entries[i]; i++) {
    int k = MultiByteToWideChar(CP_UTF8, 0, entries[i], -1, parent_block + u, (int) (cap - u));
    u += (size_t) k;
  }
  parent_block[u++] = 0;
  parent_units = u;
}

static void check_env(const char *const *parent, REPROC_ENV beh, const char *const *extra)
{
  st_env_cases++;
  set_parent(parent);
  const char *argv[] = { "prog", NULL };
  int r = start(argv, beh, extra);
  if (r < 0 || create_calls != 1) {
    report("env-start-failed", NULL, "process_start failed for a valid environment");
    return;
  }
  // expected entries
  const char *exp[400];
  int ne = 0;
  if (beh == REPROC_ENV_EXTEND && parent)
    for (int i = 0; parent[i]; i++) exp[ne++] = parent[i];
  if (extra)
    for (int i = 0; extra[i]; i++) {
      // an empty string cannot be told from the end of the block: content is compared up to it,
      // the bounds of the whole block (every entry is still copied) are the sanitizer's business
      if (!extra[i][0]) break;
      exp[ne++] = extra[i];
    }
  st_env_entries += ne;
  size_t u = 0;
  int i = 0;
  char msg[300];
  while (cap_env[u] != 0) {
    size_t len = wcslen(cap_env + u);
    bstr b = utf16_to_utf8(cap_env + u, len);
    if (i >= ne) {
      snprintf(msg, sizeof msg, "block has more than the %d expected entries", ne);
      report("env-extra-entry", NULL, msg);
      free(b.p);
      return;
    }
    if (b.n != strlen(exp[i]) || memcmp(b.p, exp[i], b.n) != 0) {
      snprintf(msg, sizeof msg, "entry %d differs from the expected entry", i);
      report("env-entry-differs", NULL, msg);
      free(b.p);
      return;
    }
    free(b.p);
    u += len + 1;
    i++;
  }
  if (i != ne) {
    snprintf(msg, sizeof msg, "block has %d entries, expected %d", i, ne);
    report("env-entry-missing", NULL, msg);
  }
}

// allocation failure at every index: only memory safety and "no CreateProcessW" are required
static void alloc_sweep(const char *const *argv, const char *const *parent, REPROC_ENV beh, const char *const *extra)
{
  set_parent(parent);
  W->ntr = 0;
  W->nfault = 0;
  start(argv, beh, extra);
  int nalloc = 0;
  for (uint32_t i = 0; i < W->ntr && i < W_MAXTR; i++)
    if (W->tr[i].fn == F_calloc || W->tr[i].fn == F_malloc) nalloc++;
  for (int fn = 0; fn < 2; fn++)
    for (int k = 0; k < nalloc; k++) {
      wrap_reset_case();
      wrap_add_fault(0, fn ? F_malloc : F_calloc, k, ENOMEM);
      set_parent(parent);
      int r = start(argv, beh, extra);
      st_alloc_runs++;
      if (W->fault[0].fired) {
        st_alloc_fired++;
        if (create_calls != 0 && r < 0) report("alloc-failure-after-create", argv, "process created although start reports failure");
      }
    }
  wrap_reset_case();
}

static uint64_t rs;
static uint64_t rnd(void)
{
  rs ^= rs << 13;
  rs ^= rs >> 7;
  rs ^= rs << 17;
  return rs;
}

static const char ALPHA[8] = { ' ', '\t', '\n', '\v', '"', '\\', 'a', 'b' };

static void nth_string(long idx, int len, char *out)
{
  for (int i = 0; i < len; i++) {
    out[i] = ALPHA[idx % 8];
    idx /= 8;
  }
  out[len] = 0;
}

static char *rand_arg(int maxlen)
{
  int len = (int) (rnd() % (uint64_t) (maxlen + 1));
  char *s = malloc((size_t) len * 4 + 1);
  int o = 0;
  for (int i = 0; i < len; i++) {
    int k = (int) (rnd() % 10);
    if (k < 6) s[o++] = ALPHA[rnd() % 8];
    else if (k < 8) s[o++] = (char) (33 + rnd() % 90);
    else {
      // multi-byte UTF-8: 2, 3 or 4 bytes
      uint32_t c = k == 8 ? 0x80 + (uint32_t) (rnd() % 0x700) : (rnd() % 2 ? 0x800 + (uint32_t) (rnd() % 0xC000) : 0x10000 + (uint32_t) (rnd() % 0xFFFFF));
      if (c >= 0xD800 && c <= 0xDFFF) c = 0x20AC;
      bstr b = { calloc(1, 1), 0 };
      put_utf8(&b, c);
      memcpy(s + o, b.p, b.n);
      o += (int) b.n;
      free(b.p);
    }
  }
  s[o] = 0;
  return s;
}

// Windows halves of C10 (each standard stream is the handle the options name) and C11 (nothing but
// those three and the exit handle is inheritable by the child), observed where the library hands
// them to Win32.
static long st_handle_cases, st_win_faults;
static void hviol(const char *cls, const char *msg, const HANDLE *h)
{
  st_viol++;
  printf("V\t%s\tin=%p,out=%p,err=%p,exit=%p\t%s\n", cls, h[0], h[1], h[2], h[3], msg);
}
static void check_handles(void)
{
  st_handle_cases++;
  HANDLE h[4];
  for (int i = 0; i < 4; i++) h[i] = (HANDLE) (intptr_t) (0x100 + 0x10 * (rnd() % 200));
  for (int i = 0; i < 4; i++)
    for (int j = 0; j < i; j++)
      if (h[i] == h[j]) h[i] = (HANDLE) ((intptr_t) h[i] + 0x4 * (i + 1));  // distinct ...
  if (rnd() % 3 == 0) h[2] = h[1];                                             // ... except stderr on stdout's handle
  struct process_options o;
  memset(&o, 0, sizeof o);
  o.env.behavior = REPROC_ENV_EXTEND;
  o.handle.in = h[0];
  o.handle.out = h[1];
  o.handle.err = h[2];
  o.handle.exit = h[3];
  const char *argv[] = { "prog", "x", NULL };
  set_parent(NULL);
  n_inheritable = n_list = n_closed = n_attr_deleted = 0;
  create_calls = 0;
  HANDLE proc = INVALID_HANDLE_VALUE;
  char msg[200];
  if (st_handle_cases % 16 == 5) {
    // every allocation of the launch failing in turn (with a working directory and extra environment, so that
    // every conversion runs): "not enough memory" comes back whatever the thread's last error happened to be,
    // no process is created, no handle stored, nothing stays allocated
    static const char *extra[] = { "VX1=a", "VX2=b b", NULL };
    o.env.extra = extra;
    o.working_directory = "C:\\some dir";
    W->ntr = 0;
    wrap_reset_case();
    w_ledger = 1;
    process_start(&proc, argv, o);
    int nalloc = 0;
    for (uint32_t i = 0; i < W->ntr && i < W_MAXTR; i++)
      if (W->tr[i].fn == F_calloc || W->tr[i].fn == F_malloc || W->tr[i].fn == F_realloc) nalloc++;
    for (int k = 0; k < nalloc; k++) {
      wrap_reset_case();
      w_ledger = 1;
      wrap_add_fault(0, F_anyalloc, k, ENOMEM);
      SetLastError(rnd() % 2 ? 0 : 183);   // stale value from some earlier, unrelated call
      create_calls = 0;
      n_closed = 0;
      proc = INVALID_HANDLE_VALUE;
      long lb = wrap_live_allocs();
      int ra = process_start(&proc, argv, o);
      long la = wrap_live_allocs();
      if (!W->fault[0].fired) continue;
      st_win_alloc_faults++;
      if (ra != -(int) ERROR_NOT_ENOUGH_MEMORY) {
        snprintf(msg, sizeof msg, "allocation %d of the launch failed, process_start returned %d (CreateProcessW calls: %d), expected %d", k, ra, create_calls, -(int) ERROR_NOT_ENOUGH_MEMORY);
        hviol("win-fault-wrong-error", msg, h);
      }
      if (proc != INVALID_HANDLE_VALUE && ra < 0) hviol("win-fault-handle-set", "a process handle was stored although start failed", h);
      if (create_calls != 0) hviol("win-fault-process-created", "CreateProcessW called after an allocation had failed", h);
      if (la != lb) {
        snprintf(msg, sizeof msg, "%ld allocations live after the failed start (allocation %d failing)", la - lb, k);
        hviol("win-fault-leak", msg, h);
      }
    }
    wrap_reset_case();
    w_ledger = 1;
    return;
  }
  win_fail_at = st_handle_cases % 4 == 0 ? 1 + (int) (rnd() % 4) : 0;
  static const DWORD ERRS[] = { 2, 5, 8, 87, 1450 };
  win_fail_err = ERRS[rnd() % 5];
  long live_before = wrap_live_allocs();
  int r = process_start(&proc, argv, o);
  long live_after = wrap_live_allocs();
  if (win_fail_at) {
    // a Win32 call the launch depends on fails: that error, no process handle, nothing of the caller's
    // closed, nothing left allocated
    int fa = win_fail_at;
    win_fail_at = 0;
    st_win_faults++;
    if (r != -(int) win_fail_err) {
      snprintf(msg, sizeof msg, "Win32 call %d failed with %u, process_start returned %d", fa, win_fail_err, r);
      hviol("win-fault-wrong-error", msg, h);
    }
    if (proc != INVALID_HANDLE_VALUE) hviol("win-fault-handle-set", "a process handle was stored although start failed", h);
    if (create_calls != (fa == 4 ? 1 : 0)) hviol("win-fault-process-created", "CreateProcessW called after an earlier step had failed", h);
    if (create_calls && fa != 4 && n_list < 3)
      hviol("win-process-created-without-handle-list", "the handle list could not be set up, yet CreateProcessW was called with bInheritHandles: every inheritable handle of the parent goes to the child", h);
    for (int j = 0; j < n_closed; j++)
      for (int i = 0; i < 4; i++)
        if (rec_closed[j] == h[i]) hviol("win-closes-callers-handle", "process_start closed one of the handles it was given (failing start)", h);
    if (live_after != live_before) {
      snprintf(msg, sizeof msg, "%ld allocations live after the failed start (Win32 call %d failing)", live_after - live_before, fa);
      hviol("win-fault-leak", msg, h);
    }
    return;
  }
  if (live_after != live_before) {
    snprintf(msg, sizeof msg, "%ld allocations live after a successful start", live_after - live_before);
    hviol("win-start-leak", msg, h);
  }
  if (r < 0 || create_calls != 1) {
    hviol("win-start-failed", "process_start failed for valid handles", h);
    return;
  }
  if (!rec_std_flag || rec_std[0] != h[0] || rec_std[1] != h[1] || rec_std[2] != h[2]) {
    snprintf(msg, sizeof msg, "STARTUPINFO std handles %p/%p/%p (USESTDHANDLES=%d)", rec_std[0], rec_std[1], rec_std[2], rec_std_flag);
    hviol("win-std-handles", msg, h);
  }
  if (!rec_inherit_flag || !rec_ext_flag || !rec_has_list) {
    snprintf(msg, sizeof msg, "bInheritHandles=%d EXTENDED_STARTUPINFO_PRESENT=%d attribute list=%d: without all three every inheritable handle of the parent leaks",
             rec_inherit_flag, rec_ext_flag, rec_has_list);
    hviol("win-handle-list-not-in-force", msg, h);
  }
  // the list: every needed handle, nothing else
  for (int i = 0; i < 4; i++) {
    int found = 0;
    for (int j = 0; j < n_list; j++) found |= rec_list[j] == h[i];
    if (!found) {
      snprintf(msg, sizeof msg, "handle %p (%s) is not in the inheritance list", h[i], i == 3 ? "exit" : i == 0 ? "stdin" : i == 1 ? "stdout" : "stderr");
      hviol("win-handle-list-missing", msg, h);
    }
  }
  for (int j = 0; j < n_list; j++) {
    int known = 0;
    for (int i = 0; i < 4; i++) known |= rec_list[j] == h[i];
    if (!known) {
      snprintf(msg, sizeof msg, "the inheritance list holds %p, which is none of the four handles", rec_list[j]);
      hviol("win-handle-list-foreign", msg, h);
    }
  }
  for (int i = 0; i < 4; i++) {
    int made = 0;
    for (int j = 0; j < n_inheritable; j++) made |= rec_inheritable[j] == h[i];
    if (!made) {
      snprintf(msg, sizeof msg, "handle %p is in the list but was not made inheritable (CreateProcess refuses such a list)", h[i]);
      hviol("win-handle-not-made-inheritable", msg, h);
    }
  }
  for (int j = 0; j < n_inheritable; j++) {
    int known = 0;
    for (int i = 0; i < 4; i++) known |= rec_inheritable[j] == h[i];
    if (!known) {
      snprintf(msg, sizeof msg, "handle %p was made inheritable, it is none of the four", rec_inheritable[j]);
      hviol("win-foreign-handle-made-inheritable", msg, h);
    }
  }
  // the process handle goes to the caller, the thread handle is closed, nothing of the caller's is
  if (proc != (HANDLE) (intptr_t) 0x1000) hviol("win-process-handle", "the process handle returned is not the one CreateProcessW produced", h);
  int thread_closed = 0;
  for (int j = 0; j < n_closed; j++) {
    if (rec_closed[j] == (HANDLE) (intptr_t) 0x2000) thread_closed++;
    for (int i = 0; i < 4; i++)
      if (rec_closed[j] == h[i]) hviol("win-closes-callers-handle", "process_start closed one of the handles it was given", h);
  }
  if (thread_closed != 1) {
    snprintf(msg, sizeof msg, "the thread handle was closed %d times", thread_closed);
    hviol("win-thread-handle", msg, h);
  }
}

#ifdef WIN_EXTRA   // second binary: calls more internal functions (process_wait, redirect_* ...) than C18 needs
// ---- redirect.windows.c at the Win32 boundary (Windows half of C10: which object, which direction)
static HANDLE std_handles[3];          // what GetStdHandle hands out for in/out/err in this case
static DWORD rec_std_id[4], rec_cf_access, rec_cf_share, rec_cf_disp;
static int n_std_calls, n_cf, rec_cf_inherit, rec_fileno_fd;
static wchar_t rec_cf_name[300];
static HANDLE next_file_handle;
HANDLE GetStdHandle(DWORD id)
{
  if (n_std_calls < 4) rec_std_id[n_std_calls] = id;
  n_std_calls++;
  return id == STD_INPUT_HANDLE ? std_handles[0] : id == STD_OUTPUT_HANDLE ? std_handles[1] : id == STD_ERROR_HANDLE ? std_handles[2] : INVALID_HANDLE_VALUE;
}
HANDLE CreateFileW(LPCWSTR name, DWORD access, DWORD share, LPSECURITY_ATTRIBUTES sa, DWORD disposition, DWORD flags, HANDLE tmpl)
{
  (void) flags; (void) tmpl;
  n_cf++;
  wcsncpy(rec_cf_name, name, 299);
  rec_cf_access = access;
  rec_cf_share = share;
  rec_cf_disp = disposition;
  rec_cf_inherit = sa ? sa->bInheritHandle : -1;
  return next_file_handle;
}
int _fileno(FILE *f) { return fileno(f); }
intptr_t _get_osfhandle(int fd) { rec_fileno_fd = fd; return 0x7000 + fd; }
int redirect_parent(HANDLE *child, REPROC_STREAM stream);
int redirect_discard(HANDLE *child, REPROC_STREAM stream);
int redirect_file(HANDLE *child, FILE *file);
int redirect_path(HANDLE *child, REPROC_STREAM stream, const char *path);

static long st_redirect_cases;
static void check_redirect(void)
{
  st_redirect_cases++;
  char msg[260];
  HANDLE none[4] = { 0, 0, 0, 0 };
  for (int st = 0; st < 3; st++) {
    // parent: the caller's own stream of the same kind; none there -> "broken pipe" (the shared code then discards)
    for (int i = 0; i < 3; i++) std_handles[i] = (HANDLE) (intptr_t) (0x5000 + 0x10 * i + (int) (rnd() % 8));
    int missing = rnd() % 4 == 0;
    if (missing) std_handles[st] = NULL;
    n_std_calls = 0;
    n_closed = 0;
    HANDLE got = (HANDLE) (intptr_t) 0x9999;
    int r = redirect_parent(&got, (REPROC_STREAM) st);
    if (n_closed != 0) hviol("win-redirect-handle-closed", "redirect_parent closed a handle (the caller's standard handles are not the library's to close)", none);
    DWORD want_id = st == 0 ? STD_INPUT_HANDLE : st == 1 ? STD_OUTPUT_HANDLE : STD_ERROR_HANDLE;
    if (n_std_calls != 1 || rec_std_id[0] != want_id) {
      snprintf(msg, sizeof msg, "redirect_parent(stream %d) asked GetStdHandle for id %d (%d calls)", st, (int) rec_std_id[0], n_std_calls);
      hviol("win-parent-wrong-std-id", msg, none);
    } else if (!missing && (r != 0 || got != std_handles[st])) {
      snprintf(msg, sizeof msg, "redirect_parent(stream %d) returned %d, handle %p; the caller's is %p", st, r, got, std_handles[st]);
      hviol("win-parent-wrong-handle", msg, none);
    } else if (missing && r != -(int) ERROR_BROKEN_PIPE) {
      snprintf(msg, sizeof msg, "redirect_parent(stream %d) with no such stream in the caller returned %d", st, r);
      hviol("win-parent-missing-not-reported", msg, none);
    }
    // discard and path: opened for reading (stdin) or writing, not inheritable, existing content kept
    for (int kind = 0; kind < 2; kind++) {
      n_cf = 0;
      next_file_handle = (HANDLE) (intptr_t) (0x6000 + (int) (rnd() % 4096) * 4);
      got = (HANDLE) (intptr_t) 0x9999;
      char path[64];
      snprintf(path, sizeof path, "C:\\dir %d\\f\xc3\xa9%d.txt", (int) (rnd() % 100), st);
      n_closed = 0;
      r = kind == 0 ? redirect_discard(&got, (REPROC_STREAM) st) : redirect_path(&got, (REPROC_STREAM) st, path);
      if (r == 0 && n_closed != 0) {
        int own = 0;
        for (int j = 0; j < n_closed && j < 16; j++) own += rec_closed[j] == got;
        snprintf(msg, sizeof msg, "%s(stream %d) succeeded and closed %d handle(s), %d of them the one it returns to the caller", kind ? "redirect_path" : "redirect_discard", st, n_closed, own);
        hviol("win-redirect-handle-closed", msg, none);
      }
      DWORD want_access = st == 0 ? GENERIC_READ : GENERIC_WRITE;
      bstr nm = utf16_to_utf8(rec_cf_name, wcslen(rec_cf_name));
      const char *want_name = kind == 0 ? "NUL" : path;
      if (r != 0 || n_cf != 1 || got != next_file_handle) {
        snprintf(msg, sizeof msg, "%s(stream %d) returned %d after %d CreateFileW calls, handle %p", kind ? "redirect_path" : "redirect_discard", st, r, n_cf, got);
        hviol("win-file-redirect-failed", msg, none);
      } else {
        if (rec_cf_access != want_access) {
          snprintf(msg, sizeof msg, "%s(stream %d) opened with access %x, expected %x", kind ? "redirect_path" : "redirect_discard", st, rec_cf_access, want_access);
          hviol("win-file-wrong-direction", msg, none);
        }
        if (nm.n != strlen(want_name) || memcmp(nm.p, want_name, nm.n) != 0) {
          snprintf(msg, sizeof msg, "%s(stream %d) opened a different name than %s", kind ? "redirect_path" : "redirect_discard", st, want_name);
          hviol("win-file-wrong-name", msg, none);
        }
        if (rec_cf_inherit != 0) hviol("win-file-inheritable", "file opened for a redirect is inheritable by every child", none);
        if (rec_cf_disp != OPEN_ALWAYS) hviol("win-file-disposition", "file not opened with OPEN_ALWAYS (create if missing, keep otherwise)", none);
      }
      free(nm.p);
    }
  }
  HANDLE got = NULL;
  int r = redirect_file(&got, stderr);
  if (r != 0 || got != (HANDLE) (intptr_t) (0x7000 + fileno(stderr))) hviol("win-file-handle", "redirect_file does not yield the OS handle of the FILE", none);
}

// Windows halves of C01 (status decoding), C06 (the right process is waited for / signalled) and
// C07 (terminate = CTRL-BREAK to the child's own group, kill = TerminateProcess with 137), at the
// Win32 boundary.
static long st_life_cases;
static void check_life(void)
{
  st_life_cases++;
  HANDLE h = (HANDLE) (intptr_t) (0x1000 + 0x10 * (rnd() % 5000));
  HANDLE hh[4] = { h, h, h, h };
  char msg[200];
  // wait: every exit code 0..255 comes back as it is; the CTRL-BREAK exit code means SIGTERM
  static const DWORD BIG[] = { 256, 258, 259, 1000, 65535, 0x7fffffffu };   // Windows exit codes are 32 bits wide
  scripted_exit_code = st_life_cases % 3 == 0 ? 3221225786u : st_life_cases % 7 == 1 ? BIG[rnd() % 6] : (DWORD) (rnd() % 256);
  n_wait = 0;
  proc_still_running = st_life_cases % 2;
  int late = proc_still_running;
  int r = process_wait(h);
  proc_still_running = 0;
  int want = scripted_exit_code == 3221225786u ? REPROC_SIGTERM : (int) scripted_exit_code;
  if (r != want) {
    snprintf(msg, sizeof msg, "process_wait returned %d for exit code %u%s, expected %d", r, scripted_exit_code, late ? " (process object signalled only after the wait began)" : "", want);
    hviol("win-wait-status", msg, hh);
  }
  if (n_wait != 1 || rec_wait_handle != h || rec_code_handle != h || rec_wait_ms != INFINITE) {
    snprintf(msg, sizeof msg, "waited on %p (%u ms, %d calls), exit code read from %p; the child's handle is %p", rec_wait_handle, rec_wait_ms, n_wait, rec_code_handle, h);
    hviol("win-wait-target", msg, hh);
  }
  n_ctrl = n_term = 0;
  r = process_terminate(h);
  if (r != 0 || n_ctrl != 1 || n_term != 0 || rec_ctrl_event != CTRL_BREAK_EVENT || rec_ctrl_group != pid_of(h)) {
    snprintf(msg, sizeof msg, "terminate: ret %d, %d console events (event %u to group %u; the child's id is %u), %d TerminateProcess calls", r, n_ctrl, rec_ctrl_event, rec_ctrl_group, pid_of(h), n_term);
    hviol("win-terminate-target", msg, hh);
  }
  n_ctrl = n_term = 0;
  r = process_kill(h);
  if (r != 0 || n_term != 1 || n_ctrl != 0 || rec_term_handle != h || rec_term_code != (UINT) REPROC_SIGKILL) {
    snprintf(msg, sizeof msg, "kill: ret %d, %d TerminateProcess calls (handle %p code %u), %d console events", r, n_term, rec_term_handle, rec_term_code, n_ctrl);
    hviol("win-kill-target", msg, hh);
  }
  if (process_pid(h) != (int) pid_of(h)) hviol("win-pid", "process_pid is not the id of the handle", hh);
  // each Win32 call failing: the error must come back as the negative system error, not as a status / success
  static const DWORD LERR[] = { 5 /* ACCESS_DENIED */, 6 /* INVALID_HANDLE */, 87 /* INVALID_PARAMETER */, 1450 };
  for (int fa = 1; fa <= 4; fa++) {
    life_fail_at = fa;
    life_fail_err = LERR[rnd() % 4];
    scripted_exit_code = (DWORD) (rnd() % 256);
    r = fa <= 2 ? process_wait(h) : fa == 3 ? process_terminate(h) : process_kill(h);
    life_fail_at = 0;
    if (r != -(int) life_fail_err) {
      snprintf(msg, sizeof msg, "%s failing with %u: %s returned %d, expected %d",
               fa == 1 ? "WaitForSingleObject" : fa == 2 ? "GetExitCodeProcess" : fa == 3 ? "GenerateConsoleCtrlEvent" : "TerminateProcess", life_fail_err,
               fa <= 2 ? "process_wait" : fa == 3 ? "process_terminate" : "process_kill", r, -(int) life_fail_err);
      hviol("win-life-failure-not-reported", msg, hh);
    }
  }
  n_closed = 0;
  HANDLE d = process_destroy(h);
  int mine = 0;
  for (int j = 0; j < n_closed; j++) mine += rec_closed[j] == h;
  if (mine != 1 || n_closed != 1 || d != INVALID_HANDLE_VALUE && d != NULL) {
    snprintf(msg, sizeof msg, "process_destroy closed the process handle %d times (%d CloseHandle calls in all)", mine, n_closed);
    hviol("win-destroy-closes", msg, hh);
  }
}

#endif  // WIN_EXTRA

static long mt_reps, mt_starts, mt_viol;
static pthread_mutex_t mt_out = PTHREAD_MUTEX_INITIALIZER;
static void *mt_thread(void *arg)
{
  intptr_t id = (intptr_t) arg;
  for (long k = 0; k < mt_reps; k++) {
    HANDLE h[4];
    for (int i = 0; i < 4; i++) h[i] = (HANDLE) (intptr_t) (0x10000 * id + 0x100 * (k % 200) + 0x10 * (i + 1));
    struct process_options o;
    memset(&o, 0, sizeof o);
    o.env.behavior = REPROC_ENV_EXTEND;
    o.handle.in = h[0];
    o.handle.out = h[1];
    o.handle.err = h[2];
    o.handle.exit = h[3];
    const char *argv[] = { "prog", "x", NULL };
    create_calls = 0;
    n_inheritable = n_list = n_closed = 0;
    HANDLE proc = INVALID_HANDLE_VALUE;
    int r = process_start(&proc, argv, o);
    __atomic_fetch_add(&mt_starts, 1, __ATOMIC_RELAXED);
    int bad = r < 0 || create_calls != 1 || n_list != 4 || rec_std[0] != h[0] || rec_std[1] != h[1] || rec_std[2] != h[2];
    for (int i = 0; i < 4 && !bad; i++) {
      int found = 0;
      for (int j = 0; j < n_list; j++) found |= rec_list[j] == h[i];
      bad |= !found;
    }
    if (bad) {
      __atomic_fetch_add(&mt_viol, 1, __ATOMIC_RELAXED);
      pthread_mutex_lock(&mt_out);
      printf("V\twin-cross-talk\tthread=%ld rep=%ld\tthe handles that reached CreateProcessW are not the ones this thread passed (list %p %p %p %p, own %p %p %p %p)\n",
             (long) id, k, rec_list[0], rec_list[1], rec_list[2], rec_list[3], h[0], h[1], h[2], h[3]);
      pthread_mutex_unlock(&mt_out);
    }
  }
  return NULL;
}

int main(int argc, char **argv)
{
  wrap_init();
  wrap_reset_case();
  if (argc >= 6 && !strcmp(argv[1], "--mt")) {
    // process_start of the Windows back-end from several threads at once (ThreadSanitizer build):
    // every thread has its own handles and must find exactly those in what reaches CreateProcessW
    long reps = atol(argv[4]);
    int nt = 4;
    pthread_t th[8];
    mt_reps = reps;
    set_parent(NULL);
    for (int i = 0; i < nt; i++) pthread_create(&th[i], NULL, mt_thread, (void *) (intptr_t) (i + 1));
    for (int i = 0; i < nt; i++) pthread_join(th[i], NULL);
    printf("H\t%ld\t%ld\n", __atomic_load_n(&mt_starts, __ATOMIC_RELAXED), __atomic_load_n(&mt_viol, __ATOMIC_RELAXED));
    return mt_viol ? 1 : 0;
  }
#ifdef WIN_EXTRA
  if (argc >= 6 && !strcmp(argv[1], "--redirect")) {
    long w = atol(argv[2]), nw = atol(argv[3]);
    rs = (uint64_t) atol(argv[5]) * 0x9E3779B97F4A7C15ULL + (uint64_t) w * 313 + 9;
    long n = (!strcmp(argv[4], "thorough") ? 100000 : 4000) / nw + 1;
    for (long i = 0; i < n; i++) check_redirect();
    printf("H\t%ld\t%ld\n", st_redirect_cases, st_viol);
    return st_viol ? 1 : 0;
  }
  if (argc >= 6 && !strcmp(argv[1], "--life")) {
    long w = atol(argv[2]), nw = atol(argv[3]);
    rs = (uint64_t) atol(argv[5]) * 0x9E3779B97F4A7C15ULL + (uint64_t) w * 977 + 3;
    long n = (!strcmp(argv[4], "thorough") ? 200000 : 8000) / nw + 1;
    for (long i = 0; i < n; i++) check_life();
    printf("H\t%ld\t%ld\n", st_life_cases, st_viol);
    return st_viol ? 1 : 0;
  }
#endif  // WIN_EXTRA
  if (argc >= 6 && !strcmp(argv[1], "--handles")) {
    long w = atol(argv[2]), nw = atol(argv[3]);
    rs = (uint64_t) atol(argv[5]) * 0x9E3779B97F4A7C15ULL + (uint64_t) w * 131 + 5;
    long n = (!strcmp(argv[4], "thorough") ? 200000 : 8000) / nw + 1;
    w_ledger = 1;   // count what the library allocates and frees
    for (long i = 0; i < n; i++) check_handles();
    printf("H\t%ld\t%ld\t%ld\n", st_handle_cases, st_viol, st_win_faults);
    return st_viol ? 1 : 0;
  }
  if (argc >= 3 && !strcmp(argv[1], "--one")) {
    verbose = 1;
    const char *av[64] = { "prog" };
    int n = 1;
    char *dup = strdup(argv[2]);
    char *p = dup;
    for (;;) {
      char *comma = strchr(p, ',');
      if (comma) *comma = 0;
      size_t hl = strlen(p) / 2;
      char *s = malloc(hl + 1);
      for (size_t i = 0; i < hl; i++) {
        unsigned v;
        sscanf(p + 2 * i, "%2x", &v);
        s[i] = (char) v;
      }
      s[hl] = 0;
      av[n++] = s;
      if (!comma) break;
      p = comma + 1;
    }
    av[n] = NULL;
    check_cmdline(av);
    printf("S\t%ld\t%ld\t%ld\n", st_cmd_cases, st_env_cases, st_viol);
    return st_viol ? 1 : 0;
  }
  if (argc < 5) return 2;
  long w = atol(argv[1]), nw = atol(argv[2]);
  int thorough = !strcmp(argv[3], "thorough");
  rs = (uint64_t) atol(argv[4]) * 0x9E3779B97F4A7C15ULL + (uint64_t) w * 77 + 1;
  char buf[16], buf2[16];
  // 1. every string of length <= 5 over the alphabet, as a single argument
  long idx = 0;
  for (int len = 0; len <= 5; len++) {
    long count = 1;
    for (int i = 0; i < len; i++) count *= 8;
    for (long i = 0; i < count; i++, idx++) {
      if (idx % nw != w) continue;
      nth_string(i, len, buf);
      const char *av[] = { "prog.exe", buf, NULL };
      check_cmdline(av);
      st_distinct++;
    }
  }
  // 2. every pair of strings of length <= 2
  for (int l1 = 0; l1 <= 2; l1++)
    for (int l2 = 0; l2 <= 2; l2++) {
      long c1 = l1 == 0 ? 1 : l1 == 1 ? 8 : 64, c2 = l2 == 0 ? 1 : l2 == 1 ? 8 : 64;
      for (long i = 0; i < c1; i++)
        for (long j = 0; j < c2; j++, idx++) {
          if (idx % nw != w) continue;
          nth_string(i, l1, buf);
          nth_string(j, l2, buf2);
          const char *av[] = { "C:\\dir\\prog.exe", buf, buf2, NULL };
          check_cmdline(av);
          st_distinct++;
        }
    }
  // 3. random vectors of 1-20 arguments
  long nrand = (thorough ? 2000000 : 40000) / nw;
  for (long k = 0; k < nrand; k++) {
    int n = 1 + (int) (rnd() % 20);
    const char *av[24] = { "prog" };
    for (int i = 0; i < n; i++) av[1 + i] = rand_arg(k % 50 == 0 ? 300 : 12);
    av[1 + n] = NULL;
    check_cmdline(av);
    for (int i = 0; i < n; i++) free((void *) av[1 + i]);
  }
  // 4. environment blocks
  long nenv = (thorough ? 200000 : 8000) / nw;
  for (long k = 0; k < nenv; k++) {
    int np = (int) (rnd() % 5 == 0 ? rnd() % 100 : rnd() % 6), nx = (int) (rnd() % 5 == 0 ? rnd() % 50 : rnd() % 5);
    const char *par[104], *ext[54];
    char *own[160];
    int no = 0;
    for (int i = 0; i < np; i++) {
      char *v = rand_arg(20);
      char *e = malloc(strlen(v) + 16);
      sprintf(e, "P%d=%s", i, v);
      free(v);
      par[i] = own[no++] = e;
    }
    par[np] = NULL;
    for (int i = 0; i < nx; i++) {
      char *v = rand_arg(20);
      char *e = malloc(strlen(v) + 16);
      sprintf(e, "X%d=%s", i % 7, v);
      free(v);
      ext[i] = own[no++] = e;
    }
    ext[nx] = NULL;
    if (nx > 1 && rnd() % 10 == 0) {
      static char empty[1] = "";
      ext[rnd() % (unsigned) (nx - 1)] = empty;   // the old string stays in own[] and is freed below
    }
    int mode = (int) (rnd() % 6);
    check_env(np || mode % 2 ? par : NULL, mode < 3 ? REPROC_ENV_EXTEND : REPROC_ENV_EMPTY, mode == 5 ? NULL : ext);
    if (k % 20 == 0) {
      const char *av[] = { "prog", "a b", "c\"d", NULL };
      alloc_sweep(av, par, REPROC_ENV_EXTEND, ext);
    }
    for (int i = 0; i < no; i++) free(own[i]);
  }
  printf("S\t%ld\t%ld\t%ld\t%ld\t%ld\t%ld\t%ld\t%ld\n", st_cmd_cases, st_env_cases, st_viol, st_alloc_runs, st_alloc_fired,
         st_args, st_env_entries, st_distinct);
  return st_viol ? 1 : 0;
}
