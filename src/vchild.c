// Scripted helper child. Standalone it is a small static, uninstrumented program
// started through reproc_start; in fork mode the runner calls vchild_run() directly.
//
// It inherits nothing from the harness: the control socket is found through
// <dir of /proc/self/exe>/vc.cfg (line 1: socket path, line 2: flags, line 3: tag),
// so argv and the environment stay entirely at the disposal of the case.
#define _GNU_SOURCE
#include "common.h"

#include <dirent.h>
#include <errno.h>
#include <fcntl.h>
#include <poll.h>
#include <signal.h>
#include <stdio.h>
#include <stdlib.h>
#include <string.h>
#include <sys/resource.h>
#include <sys/socket.h>
#include <sys/stat.h>
#include <sys/un.h>
#include <time.h>
#include <unistd.h>

extern char **environ;

static int h15_code;
static void h15(int s)
{
  (void) s;
  _exit(h15_code);
}

typedef struct {
  char *p;
  size_t n, cap;
} sbuf;

static void sb_add(sbuf *b, const char *s, size_t n)
{
  if (b->n + n + 1 > b->cap) {
    b->cap = (b->n + n + 1) * 2 + 256;
    b->p = realloc(b->p, b->cap);
    if (!b->p) _exit(112);
  }
  memcpy(b->p + b->n, s, n);
  b->n += n;
  b->p[b->n] = 0;
}
static void sb_str(sbuf *b, const char *s) { sb_add(b, s, strlen(s)); }
static void sb_hex(sbuf *b, const char *s, size_t n)
{
  static const char hx[] = "0123456789abcdef";
  for (size_t i = 0; i < n; i++) {
    char c[2] = { hx[(unsigned char) s[i] >> 4], hx[(unsigned char) s[i] & 15] };
    sb_add(b, c, 2);
  }
}

// fd table snapshot; must run before anything else is opened
static void snapshot_fds(sbuf *b)
{
  DIR *d = opendir("/proc/self/fd");
  if (!d) {
    sb_str(b, "fderr\n");
    return;
  }
  int dfd = dirfd(d);
  struct dirent *e;
  while ((e = readdir(d))) {
    if (e->d_name[0] == '.') continue;
    int fd = atoi(e->d_name);
    if (fd == dfd) continue;
    struct stat st;
    char line[256];
    if (fstat(fd, &st) < 0) {
      snprintf(line, sizeof line, "fd %d staterr %d\n", fd, errno);
    } else {
      int fl = fcntl(fd, F_GETFL);
      int fdfl = fcntl(fd, F_GETFD);
      snprintf(line, sizeof line, "fd %d %llu %llu %llu %o %d %d\n", fd,
               (unsigned long long) st.st_dev, (unsigned long long) st.st_ino,
               (unsigned long long) st.st_rdev, (unsigned) st.st_mode, fl, fdfl);
    }
    sb_str(b, line);
  }
  closedir(d);
}

static void snapshot_sig(sbuf *b)
{
  FILE *f = fopen("/proc/self/status", "r");
  if (!f) return;
  char line[512];
  while (fgets(line, sizeof line, f)) {
    if (!strncmp(line, "SigBlk:", 7) || !strncmp(line, "SigIgn:", 7) ||
        !strncmp(line, "SigCgt:", 7)) {
      char *v = line + 7;
      while (*v == ' ' || *v == '\t') v++;
      char out[64];
      snprintf(out, sizeof out, "sig %.6s %s", line, v);
      sb_str(b, out);
    }
  }
  fclose(f);
}

static uint64_t woff[3];  // bytes written so far per logical stream (1, 2)
static uint64_t roff;     // bytes read so far from stdin
static int nb_done[3];
static int g_text;  // map NUL bytes to 1 (for strlen-based string sinks)

static void make_nonblocking(int fd)
{
  if (fd < 0 || fd > 2 || nb_done[fd]) return;
  nb_done[fd] = 1;
  struct stat st;
  if (fstat(fd, &st) == 0 && S_ISFIFO(st.st_mode)) {
    int fl = fcntl(fd, F_GETFL);
    if (fl >= 0) fcntl(fd, F_SETFL, fl | O_NONBLOCK);
  }
}

static void reply(int s, const char *fmt, long a, long b, long c, long d)
{
  if (s < 0) return;  // "nosock" mode: nobody to report to
  char m[128];
  int n = snprintf(m, sizeof m, fmt, a, b, c, d);
  if (msg_send(s, m, (uint32_t) n) < 0) _exit(0);
}

static void free_run(int s, const char *spec);

// descriptor table + signal state of the calling process as text (for the child side of a
// fork-mode start, which never execs this helper)
char *vchild_snapshot_text(void)
{
  sbuf b = { 0 };
  snapshot_fds(&b);
  snapshot_sig(&b);
  return b.p ? b.p : strdup("");
}

int vchild_run(const char *sockpath, const char *flags, const char *tag,
               const char *snap, int argc, char **argv)
{
  struct rlimit rl = { 0, 0 };
  setrlimit(RLIMIT_CORE, &rl);
  // the case may have started us under a tiny descriptor limit: lift it for our own needs
  if (getrlimit(RLIMIT_NOFILE, &rl) == 0 && rl.rlim_cur < 64 && rl.rlim_max >= 64) {
    rl.rlim_cur = 64;
    setrlimit(RLIMIT_NOFILE, &rl);
  }
  const char *f;
  if (flags && strstr(flags, "ign15")) signal(SIGTERM, SIG_IGN);
  if (flags && (f = strstr(flags, "h15="))) {
    h15_code = atoi(f + 4);
    signal(SIGTERM, h15);
  }
  if (flags && strstr(flags, "ignpipe")) signal(SIGPIPE, SIG_IGN);
  if (flags && strstr(flags, "text")) g_text = 1;

  if (flags && strstr(flags, "nosock")) {
    // free-running helper for harnesses that only look at its streams and exit status
    if ((f = strstr(flags, "free:"))) free_run(-1, f + 5);
    _exit(0);
  }
  int s = socket(AF_UNIX, SOCK_STREAM | SOCK_CLOEXEC, 0);
  if (s < 0) _exit(113);
  struct sockaddr_un sa;
  memset(&sa, 0, sizeof sa);
  sa.sun_family = AF_UNIX;
  strncpy(sa.sun_path, sockpath, sizeof sa.sun_path - 1);
  if (connect(s, (struct sockaddr *) &sa, sizeof sa) < 0) _exit(114);

  char exe[4096];
  ssize_t el = readlink("/proc/self/exe", exe, sizeof exe - 1);
  if (el < 0) el = 0;
  exe[el] = 0;
  {
    sbuf h = { 0 };
    char t[64];
    snprintf(t, sizeof t, "H %d ", (int) getpid());
    sb_str(&h, t);
    sb_str(&h, tag ? tag : "-");
    sb_str(&h, " ");
    sb_hex(&h, exe, (size_t) el);
    if (msg_send(s, h.p, (uint32_t) h.n) < 0) _exit(0);
    free(h.p);
  }

  if (flags && strstr(flags, "snap")) {
    const char *sn = snap ? snap : "";
    if (msg_send(s, sn, (uint32_t) strlen(sn)) < 0) _exit(0);
  }
  if (flags && (f = strstr(flags, "free:"))) {
    free_run(s, f + 5);
    _exit(0);
  }

  for (;;) {
    uint32_t n;
    char *m = msg_recv(s, &n);
    if (!m) _exit(0);
    char c = m[0];
    long a = 0, b = 0;
    if (n > 2) sscanf(m + 2, "%ld %ld", &a, &b);
    free(m);
    if (c == 'W') {
      int fd = (int) a;
      long want = b, done = 0;
      int err = 0;
      make_nonblocking(fd);
      static char buf[65536];
      while (done < want) {
        long chunk = want - done;
        if (chunk > (long) sizeof buf) chunk = (long) sizeof buf;
        for (long i = 0; i < chunk; i++)
          buf[i] = (char) poscode((unsigned) fd, woff[fd] + (uint64_t) i);
        if (g_text)
          for (long i = 0; i < chunk; i++)
            if (!buf[i]) buf[i] = 1;
        ssize_t r = write(fd, buf, (size_t) chunk);
        if (r < 0) {
          if (errno == EINTR) continue;
          err = errno;
          break;
        }
        woff[fd] += (uint64_t) r;
        done += r;
        if (r < chunk) continue;  // next round reports EAGAIN
      }
      reply(s, "w %ld %ld", done, err, 0, 0);
    } else if (c == 'C' && a == 99) {
      // daemon-style: drop every inherited descriptor above 2 (the library's exit handle among
      // them) and keep running; only the control socket stays
      int n = 0;
      for (int fd = 3; fd < 1024; fd++)
        if (fd != s && close(fd) == 0) n++;
      reply(s, "c %ld %ld", n, 0, 0, 0);
    } else if (c == 'C') {
      int r = close((int) a);
      reply(s, "c %ld %ld", r, r < 0 ? errno : 0, 0, 0);
    } else if (c == 'R') {
      long want = a, done = 0, bad = -1;
      int err = 0, eof = 0;
      make_nonblocking(0);
      static char buf[65536];
      while (done < want) {
        long chunk = want - done;
        if (chunk > (long) sizeof buf) chunk = (long) sizeof buf;
        ssize_t r = read(0, buf, (size_t) chunk);
        if (r < 0) {
          if (errno == EINTR) continue;
          err = errno;
          break;
        }
        if (r == 0) {
          eof = 1;
          break;
        }
        for (long i = 0; i < r; i++)
          if (bad < 0 && (uint8_t) buf[i] != poscode(0, roff + (uint64_t) i))
            bad = (long) (roff + (uint64_t) i);
        roff += (uint64_t) r;
        done += r;
      }
      reply(s, "r %ld %ld %ld %ld", done, eof, err, bad);
    } else if (c == 'X') {
      _exit((int) a);
    } else if (c == 'K') {
      signal((int) a, SIG_DFL);
      sigset_t ss;
      sigemptyset(&ss);
      sigprocmask(SIG_SETMASK, &ss, NULL);
      raise((int) a);
      reply(s, "k %ld", 0, 0, 0, 0);  // only reached if the signal did not end us
    } else if (c == 'I') {
      sbuf o = { 0 };
      sb_str(&o, snap ? snap : "");
      char cwd[8192];
      if (getcwd(cwd, sizeof cwd)) {
        sb_str(&o, "cwd ");
        sb_hex(&o, cwd, strlen(cwd));
        sb_str(&o, "\n");
      } else {
        sb_str(&o, "cwderr\n");
      }
      for (int i = 0; i < argc; i++) {
        sb_str(&o, "arg ");
        sb_hex(&o, argv[i], strlen(argv[i]));
        sb_str(&o, "\n");
      }
      for (char **e = environ; e && *e; e++) {
        sb_str(&o, "env ");
        sb_hex(&o, *e, strlen(*e));
        sb_str(&o, "\n");
      }
      if (msg_send(s, o.p ? o.p : "", (uint32_t) o.n) < 0) _exit(0);
      free(o.p);
    } else if (c == 'Q') {
      _exit(0);
    } else {
      reply(s, "? %ld", c, 0, 0, 0);
    }
  }
}

// Free-running mode for the stress engines: out=<n> err=<m> echo=<0|1> exit=<c> seed=<s>
// Writes n position-coded bytes to stdout and m to stderr in random chunks with random
// micro-sleeps (blocking writes, real concurrency), optionally echoes stdin to stdout
// (after the n bytes; logical stream 1 continues with the echoed bytes verbatim),
// then reports what it read and exits.
static void free_run(int s, const char *spec)
{
  long out = 0, err = 0, echo = 0, code = 0, seed = 1, closefirst = 0, life = 0;
  const char *p;
  if ((p = strstr(spec, "out="))) out = atol(p + 4);
  if ((p = strstr(spec, "err="))) err = atol(p + 4);
  if ((p = strstr(spec, "echo="))) echo = atol(p + 5);
  if ((p = strstr(spec, "exit="))) code = atol(p + 5);
  if ((p = strstr(spec, "seed="))) seed = atol(p + 5);
  if ((p = strstr(spec, "closefirst="))) closefirst = atol(p + 11);
  if ((p = strstr(spec, "life="))) life = atol(p + 5);   // stay alive this many ms (real time) before exiting
  uint32_t x = (uint32_t) seed * 2654435761u + 1;
  static char buf[70000];
  long o = 0, e = 0;
  signal(SIGPIPE, SIG_IGN);
  while (o < out || e < err) {
    x ^= x << 13;
    x ^= x >> 17;
    x ^= x << 5;
    int which = (e >= err) ? 1 : (o >= out) ? 2 : ((x & 1) ? 1 : 2);
    long left = which == 1 ? out - o : err - e;
    long chunk = 1 + (long) ((x >> 3) % 69999);
    if ((x >> 20) & 1) chunk = 1 + chunk % 300;
    if (chunk > left) chunk = left;
    uint64_t base = which == 1 ? (uint64_t) o : (uint64_t) e;
    for (long i = 0; i < chunk; i++)
      buf[i] = (char) poscode((unsigned) which, base + (uint64_t) i);
    long done = 0;
    while (done < chunk) {
      ssize_t r = write(which, buf + done, (size_t) (chunk - done));
      if (r < 0) {
        if (errno == EINTR) continue;
        goto finish;
      }
      done += r;
    }
    if (which == 1) o += chunk; else e += chunk;
    if (((x >> 24) & 7) == 0) {
      struct timespec ts = { 0, (long) ((x >> 8) % 300) * 1000 };
      nanosleep(&ts, NULL);
    }
  }
  if (closefirst) {
    close(1);
    close(2);
  }
  long got = 0, bad = -1;
  if (echo) {
    for (;;) {
      ssize_t r = read(0, buf, 1 + (x % 60000));
      x = x * 1103515245u + 12345u;
      if (r < 0) {
        if (errno == EINTR) continue;
        break;
      }
      if (r == 0) break;
      for (long i = 0; i < r; i++)
        if (bad < 0 && (uint8_t) buf[i] != poscode(0, (uint64_t) (got + i))) bad = got + i;
      got += r;
      if (echo == 2 && !closefirst) {
        long done = 0;
        while (done < r) {
          ssize_t w = write(1, buf + done, (size_t) (r - done));
          if (w < 0) {
            if (errno == EINTR) continue;
            goto finish;
          }
          done += w;
        }
      }
    }
  }
finish:
  if (life > 0) {
    struct timespec end, nowt;
    clock_gettime(CLOCK_MONOTONIC, &end);
    end.tv_sec += life / 1000;
    end.tv_nsec += (life % 1000) * 1000000L;
    if (end.tv_nsec >= 1000000000L) {
      end.tv_sec++;
      end.tv_nsec -= 1000000000L;
    }
    // an ignored or handled signal must not shorten the life
    while (clock_nanosleep(CLOCK_MONOTONIC, TIMER_ABSTIME, &end, NULL) == EINTR) {
      clock_gettime(CLOCK_MONOTONIC, &nowt);
    }
  }
  reply(s, "f %ld %ld %ld %ld", o, e, got, bad);
  _exit((int) code);
}

#ifndef VCHILD_EMBEDDED
int main(int argc, char **argv)
{
  {
    struct rlimit rl;
    if (getrlimit(RLIMIT_NOFILE, &rl) == 0 && rl.rlim_cur < 64 && rl.rlim_max >= 64) {
      rl.rlim_cur = 64;
      setrlimit(RLIMIT_NOFILE, &rl);
    }
  }
  sbuf snap = { 0 };
  snapshot_fds(&snap);
  snapshot_sig(&snap);
  char exe[4096];
  ssize_t el = readlink("/proc/self/exe", exe, sizeof exe - 1);
  if (el <= 0) _exit(110);
  exe[el] = 0;
  char *slash = strrchr(exe, '/');
  if (!slash) _exit(110);
  *slash = 0;
  char cfgp[4200];
  snprintf(cfgp, sizeof cfgp, "%s/vc.cfg", exe);
  FILE *f = fopen(cfgp, "r");
  if (!f) {
    // the configuration path may exceed PATH_MAX when the executable sits in a very deep
    // directory: go there and open it by its relative name
    int cwdfd = open(".", O_RDONLY | O_DIRECTORY | O_CLOEXEC);
    if (cwdfd >= 0 && chdir(exe) == 0) {
      f = fopen("vc.cfg", "r");
      if (fchdir(cwdfd) < 0) _exit(111);
    }
    if (cwdfd >= 0) close(cwdfd);
  }
  if (!f) _exit(111);
  static char sock[512], flags[512], tag[128];
  if (!fgets(sock, sizeof sock, f)) _exit(111);
  if (!fgets(flags, sizeof flags, f)) flags[0] = 0;
  if (!fgets(tag, sizeof tag, f)) tag[0] = 0;
  fclose(f);
  sock[strcspn(sock, "\n")] = 0;
  flags[strcspn(flags, "\n")] = 0;
  tag[strcspn(tag, "\n")] = 0;
  return vchild_run(sock, flags, tag[0] ? tag : "-", snap.p, argc, argv);
}
#endif
