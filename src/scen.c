// Scenario runner: executes scripted API histories against scripted children on a
// virtual timeline (see DESIGN.md 2.5-2.7). One process per case.
//
// usage: scen <vchild-binary> <scratch-dir>      (cases on stdin: "<id> <script>")
// or:    scen <vchild-binary> <scratch-dir> --one "<script>"   (log on stdout)
#define _GNU_SOURCE
#include "common.h"
#include "wrap.h"

#include <dirent.h>
#include <errno.h>
#include <fcntl.h>
#include <poll.h>
#include <pthread.h>
#include <signal.h>
#include <stdarg.h>
#include <stdio.h>
#include <stdlib.h>
#include <string.h>
#include <sys/resource.h>
#include <sys/socket.h>
#include <sys/stat.h>
#include <sys/time.h>
#include <sys/un.h>
#include <sys/wait.h>
#include <unistd.h>

#include <reproc/drain.h>
#include <reproc/reproc.h>
#include <reproc/run.h>

char *vchild_snapshot_text(void);
int vchild_run(const char *sockpath, const char *flags, const char *tag,
               const char *snap, int argc, char **argv);

#define NH 4
#ifdef VERIF_COV
void __gcov_dump(void);
#define COV_DUMP() __gcov_dump()
#else
#define COV_DUMP() ((void) 0)
#endif

static int HIGHFD = 200;  // harness descriptors live at [HIGHFD, hard limit - 2]
static rlim_t g_hard_nofile;

static const char *g_vchild, *g_scratch;
static char g_cdir[600];
static FILE *L;  // case log
static int g_hang;
static int g_traceall;
static uint32_t g_trmark;
static int g_opidx;
static const char *g_opname = "";
static int g_oph = -1;
static int64_t g_opt0;
static long g_oparg;

// ------------------------------------------------------------------ children
typedef struct {
  int64_t t;
  char cmd;      // W C R E(read until eof) X K
  long a, b;
  long acc;      // accumulated (E)
  int done;
} cevent;

typedef struct {
  int used;
  reproc_t *p;
  int started;        // reproc_start returned > 0
  int lsock, csock;   // listener, control connection
  int pid;            // from hello
  int ended;          // kernel says zombie or gone
  int end_how, end_st;
  int64_t end_vt;
  // behaviour
  char term[32], skill[32];
  // program-order events
  cevent ev[64];
  int nev, head;
  // stream bookkeeping
  int rtype[3];             // effective redirect type per stream (as requested)
  uint64_t cw[3];           // bytes the child wrote to fd 1 / 2 (acked)
  int cclosed[3];           // child closed fd
  uint64_t wroff;           // bytes accepted by reproc_write / input
  uint64_t rdoff[3];        // bytes the parent read per pipe (1 out, 2 err)
  // expected content per parent-visible pipe
  struct { unsigned s; uint64_t start, len; } seg[3][512];
  int nseg[3];
  int text, lazy_accept, want_ident;
  FILE *sfile;
  char dir[700];
  FILE *files[3];
  int handles[3];
} child_t;

static child_t C[NH];

typedef struct {
  int64_t t;
  int h, sig, done;
} aevent;
static aevent AE[64];
static int nae;

static void jtrace(void);

static const char *gt_state(child_t *c, int *how, int *st)
{
  if (c->pid <= 0) return "none";
  siginfo_t si;
  si.si_pid = 0;
  int r = waitid(P_PID, (id_t) c->pid, &si, WEXITED | WNOHANG | WNOWAIT);
  if (r < 0) return errno == ECHILD ? "reaped" : "err";
  if (si.si_pid == 0) return "run";
  if (how) *how = si.si_code;
  if (st) *st = si.si_status;
  return "zomb";
}

// Block (real time) until the child is a zombie; record how it ended.
static void sync_end(child_t *c)
{
  if (c->ended || c->pid <= 0) return;
  siginfo_t si;
  si.si_pid = 0;
  int r;
  do {
    r = waitid(P_PID, (id_t) c->pid, &si, WEXITED | WNOWAIT);
  } while (r < 0 && errno == EINTR);
  c->ended = 1;
  c->end_vt = w_vnow;
  if (r == 0) {
    c->end_how = si.si_code;
    c->end_st = si.si_status;
  } else {
    c->end_how = -1;
    c->end_st = errno;
  }
  fprintf(L, "{\"ev\":\"end\",\"h\":%d,\"vt\":%lld,\"how\":%d,\"st\":%d}\n",
          (int) (c - C), (long long) w_vnow, c->end_how, c->end_st);
  if (c->csock >= 0) {
    close(c->csock);
    c->csock = -1;
  }
}

static int dest_pipe(child_t *c, int fd)
{
  // which parent-visible pipe receives what the child writes to fd (0: none)
  if (fd == 1) return c->rtype[1] == REPROC_REDIRECT_PIPE ? 1 : 0;
  if (fd == 2) {
    if (c->rtype[2] == REPROC_REDIRECT_PIPE) return 2;
    if (c->rtype[2] == REPROC_REDIRECT_STDOUT && c->rtype[1] == REPROC_REDIRECT_PIPE)
      return 1;
  }
  return 0;
}

static void seg_add(child_t *c, int fd, uint64_t start, uint64_t len)
{
  int p = dest_pipe(c, fd);
  if (!p || !len) return;
  int n = c->nseg[p];
  if (n > 0 && c->seg[p][n - 1].s == (unsigned) fd &&
      c->seg[p][n - 1].start + c->seg[p][n - 1].len == start) {
    c->seg[p][n - 1].len += len;
    return;
  }
  if (n < 512) {
    c->seg[p][n].s = (unsigned) fd;
    c->seg[p][n].start = start;
    c->seg[p][n].len = len;
    c->nseg[p]++;
  }
}

// Verify n bytes received from pipe p at pipe offset off. Returns first bad offset or -1;
// -2 if more bytes arrived than the child ever wrote.
static long long verify(child_t *c, int p, uint64_t off, const uint8_t *buf, size_t n)
{
  uint64_t base = 0;
  size_t i = 0;
  for (int s = 0; s < c->nseg[p] && i < n; s++) {
    uint64_t sl = c->seg[p][s].len;
    if (off + i >= base + sl) {
      base += sl;
      continue;
    }
    while (i < n && off + i < base + sl) {
      uint64_t pos = c->seg[p][s].start + (off + i - base);
      uint8_t want = poscode(c->seg[p][s].s, pos);
      if (c->text && !want) want = 1;
      if (buf[i] != want) return (long long) (off + i);
      i++;
    }
    base += sl;
  }
  if (i < n) return -2;
  return -1;
}

static char *child_cmd(child_t *c, const char *fmt, long a, long b)
{
  char m[96];
  int n = snprintf(m, sizeof m, fmt, a, b);
  if (c->csock < 0) return NULL;
  if (msg_send(c->csock, m, (uint32_t) n) < 0) return NULL;
  return msg_recv(c->csock, NULL);
}

// Try to run the head program event of child c. Returns 1 if it completed (or was dropped).
static int run_head(child_t *c)
{
  cevent *e = &c->ev[c->head];
  int h = (int) (c - C);
  if (c->ended || c->csock < 0) {
    fprintf(L, "{\"ev\":\"drop\",\"h\":%d,\"vt\":%lld,\"cmd\":\"%c\"}\n", h,
            (long long) w_vnow, e->cmd);
    return 1;
  }
  char *r;
  switch (e->cmd) {
    case 'W': {
      int fd = (int) e->a;
      r = child_cmd(c, "W %ld %ld", e->a, e->b - e->acc);
      if (!r) {
        sync_end(c);
        return 1;
      }
      long done = 0, err = 0;
      sscanf(r, "w %ld %ld", &done, &err);
      free(r);
      if (done > 0) {
        seg_add(c, fd, c->cw[fd], (uint64_t) done);
        c->cw[fd] += (uint64_t) done;
        fprintf(L, "{\"ev\":\"cw\",\"h\":%d,\"vt\":%lld,\"fd\":%d,\"n\":%ld}\n", h,
                (long long) w_vnow, fd, done);
      }
      e->acc += done;
      if (e->acc >= e->b) return 1;
      if (err == EAGAIN) return done > 0 ? 2 : 0;  // blocked: retried at the next scheduler run
      fprintf(L, "{\"ev\":\"cwerr\",\"h\":%d,\"vt\":%lld,\"fd\":%d,\"err\":%ld}\n", h,
              (long long) w_vnow, fd, err);
      return 1;
    }
    case 'R':
    case 'E': {
      r = child_cmd(c, "R %ld", e->cmd == 'E' ? 1 << 20 : e->a, 0);
      if (!r) {
        sync_end(c);
        return 1;
      }
      long done = 0, eof = 0, err = 0, bad = -1;
      sscanf(r, "r %ld %ld %ld %ld", &done, &eof, &err, &bad);
      free(r);
      if (done > 0 || eof || (err && err != EAGAIN))
        fprintf(L,
                "{\"ev\":\"cr\",\"h\":%d,\"vt\":%lld,\"n\":%ld,\"eof\":%ld,\"err\":%ld,"
                "\"bad\":%ld}\n",
                h, (long long) w_vnow, done, eof, err == EAGAIN ? 0 : err, bad);
      if (e->cmd == 'E') return (eof || (err && err != EAGAIN)) ? 1 : (done > 0 ? 2 : 0);
      return done > 0 || eof || (err && err != EAGAIN);
    }
    case 'C': {
      r = child_cmd(c, "C %ld", e->a, 0);
      if (!r) {
        sync_end(c);
        return 1;
      }
      free(r);
      if (e->a >= 0 && e->a <= 2) c->cclosed[e->a] = 1;
      fprintf(L, "{\"ev\":\"cc\",\"h\":%d,\"vt\":%lld,\"fd\":%ld}\n", h, (long long) w_vnow,
              e->a);
      return 1;
    }
    case 'X':
    case 'K': {
      char m[32];
      int n = snprintf(m, sizeof m, "%c %ld", e->cmd, e->a);
      msg_send(c->csock, m, (uint32_t) n);
      sync_end(c);
      return 1;
    }
  }
  return 1;
}

static void deliver_signal(child_t *c, int sig)
{
  // forward a real signal to a child that is still ours and unreaped
  if (c->pid <= 0 || c->ended) return;
  int st = wrap_child_state(c->pid);
  if (st != 1) return;
  kill(c->pid, sig);
  int dies = sig == SIGKILL || (sig == SIGTERM && strcmp(c->term, "ign") != 0);
  fprintf(L, "{\"ev\":\"dlv\",\"h\":%d,\"vt\":%lld,\"sig\":%d}\n", (int) (c - C),
          (long long) w_vnow, sig);
  if (dies) sync_end(c);
}

static int64_t sched_next(void)
{
  int64_t best = INT64_MAX;
  for (int h = 0; h < NH; h++) {
    child_t *c = &C[h];
    if (!c->used || c->head >= c->nev) continue;
    if (c->ended || c->csock < 0) continue;
    cevent *e = &c->ev[c->head];
    if (e->t > w_vnow) {
      if (e->t < best) best = e->t;
    }
    // a head event with t <= vnow that did not complete is blocked: no wake-up time
  }
  for (int i = 0; i < nae; i++)
    if (!AE[i].done && AE[i].t > w_vnow && AE[i].t < best) best = AE[i].t;
  return best;
}

static int accept_child(child_t *c);
static void request_ident(child_t *c);
static int in_sched;
static int sched_run(int64_t upto)
{
  int progress = 0;
  if (in_sched) return 0;
  in_sched = 1;
  for (int h = 0; h < NH; h++)
    if (C[h].used && C[h].lazy_accept && C[h].csock < 0 && C[h].lsock >= 0 && !w_in_start &&
        W->nchild > C[h].lazy_accept - 1) {
      C[h].lazy_accept = 0;
      if (accept_child(&C[h]) == 0 && C[h].want_ident) request_ident(&C[h]);
    }
  for (;;) {
    // earliest runnable item (program-order head or async signal) with t <= upto
    int bh = -1, ba = -1;
    int64_t bt = INT64_MAX;
    for (int h = 0; h < NH; h++) {
      child_t *c = &C[h];
      if (!c->used || c->head >= c->nev) continue;
      cevent *e = &c->ev[c->head];
      if (e->done == 2) continue;  // blocked in this round
      if (e->t <= upto && e->t < bt) {
        bt = e->t;
        bh = h;
      }
    }
    for (int i = 0; i < nae; i++)
      if (!AE[i].done && AE[i].t <= upto && AE[i].t < bt) {
        bt = AE[i].t;
        ba = i;
        bh = -1;
      }
    if (bh < 0 && ba < 0) break;
    if (ba >= 0) {
      AE[ba].done = 1;
      deliver_signal(&C[AE[ba].h], AE[ba].sig);
      progress++;
      continue;
    }
    child_t *c = &C[bh];
    int rh = run_head(c);
    if (rh) progress++;
    if (rh == 1)
      c->head++;
    else
      c->ev[c->head].done = 2;
  }
  for (int h = 0; h < NH; h++)
    if (C[h].used && C[h].head < C[h].nev && C[h].ev[C[h].head].done == 2)
      C[h].ev[C[h].head].done = 0;
  in_sched = 0;
  return progress;
}

static void finish_case(void);

static int g_in_sinkcalls;
static int g_nchild_before_start;
static int g_watchdogs;
static int g_faults_start_only;
static char *g_sinkbuf;
static void on_hang(const char *what)
{
  g_hang = 1;
  if (g_in_sinkcalls)
    fprintf(L, "{\"i\":%d,\"sinkcalls\":[%s]}\n", g_opidx, g_sinkbuf ? g_sinkbuf : "");
  fprintf(L, "{\"i\":%d,\"op\":\"%s\",\"h\":%d,\"t0\":%lld,\"hang\":\"%s\",\"vt\":%lld,\"to\":%ld,",
          g_opidx, g_opname, g_oph, (long long) g_opt0, what, (long long) w_vnow, g_oparg);
  jtrace();
  fprintf(L, "}\n");
  finish_case();
  COV_DUMP();
  _exit(0);
}

static int on_kill(int pid, int sig)
{
  child_t *c = NULL;
  for (int h = 0; h < NH; h++)
    if (C[h].used && C[h].pid == pid) c = &C[h];
  if (!c) return 1;  // a child that never said hello: forward as is
  int h = (int) (c - C);
  const char *beh = sig == SIGKILL ? c->skill : sig == SIGTERM ? c->term : "now";
  fprintf(L, "{\"ev\":\"sig\",\"h\":%d,\"vt\":%lld,\"sig\":%d,\"zomb\":%d}\n", h,
          (long long) w_vnow, sig, c->ended);
  if (c->ended) return 1;  // signalling one's own zombie: harmless, forwarded
  if (beh[0] == 'd' || beh[0] == 'h') {
    long d = atol(beh + 1);
    if (d > 0) {
      if (nae < 64) {
        AE[nae].t = w_vnow + d;
        AE[nae].h = h;
        AE[nae].sig = sig;
        AE[nae].done = 0;
        nae++;
      }
      return 0;
    }
  }
  kill(pid, sig);
  int dies = sig == SIGKILL || (sig == SIGTERM && strcmp(beh, "ign") != 0);
  if (dies) sync_end(c);
  return 0;  // already forwarded
}

// ------------------------------------------------------------------ logging
static const uint32_t TRMASK_DEFAULT =
    (1u << F_fork) | (1u << F_kill) | (1u << F_waitpid) | (1u << F_execvp) |
    (1u << F__exit) | (1u << F_poll) | (1u << F_read) | (1u << F_write) | (1u << F_pipe) |
    (1u << F_realloc);

static void jtrace(void)
{
  fprintf(L, "\"tr\":[");
  uint32_t end = W->ntr;
  int first = 1;
  for (uint32_t i = g_trmark; i < end && i < W_MAXTR; i++) {
    trec *t = &W->tr[i];
    int keep = g_traceall || (TRMASK_DEFAULT & (1u << t->fn)) || t->flags;
    if (!keep) continue;
    if (t->side == 1 && !g_traceall && !(t->flags & ~TF_NONBLOCK) &&
        !(t->fn == F_execvp || t->fn == F__exit || t->fn == F_write))
      continue;
    fprintf(L, "%s[\"%s\",%d,%d,%ld,%ld,%ld,%d,%d,%lld,%lld,%ld]", first ? "" : ",",
            wfn_name[t->fn], t->side, t->k, t->a[0], t->a[1], t->ret, t->err, t->flags,
            (long long) t->vt0, (long long) t->vt1, t->fn == F_open ? 0L : t->a[2]);
    first = 0;
  }
  fprintf(L, "]");
  g_trmark = end;
}

static void jgt(void)
{
  fprintf(L, "\"gt\":[");
  int first = 1;
  for (int h = 0; h < NH; h++) {
    if (!C[h].used) continue;
    int how = 0, st = 0;
    const char *s = gt_state(&C[h], &how, &st);
    fprintf(L, "%s[%d,\"%s\",%d,%d]", first ? "" : ",", h, s, how, st);
    first = 0;
  }
  fprintf(L, "]");
}

static void op_begin(const char *name, int h)
{
  g_opidx++;
  g_opname = name;
  g_oph = h;
  g_opt0 = w_vnow;
  w_cur_op = g_opidx;
  g_trmark = W->ntr;
  sched_run(w_vnow);
}

static void op_end_fmt(long ret, const char *extra_fmt, ...)
{
  w_cur_op = -1;
  fprintf(L, "{\"i\":%d,\"op\":\"%s\",\"h\":%d,\"ret\":%ld,\"t0\":%lld,\"t1\":%lld,", g_opidx,
          g_opname, g_oph, ret, (long long) g_opt0, (long long) w_vnow);
  if (extra_fmt && *extra_fmt) {
    va_list ap;
    va_start(ap, extra_fmt);
    vfprintf(L, extra_fmt, ap);
    va_end(ap);
    fprintf(L, ",");
  }
  jtrace();
  fprintf(L, ",");
  jgt();
  fprintf(L, "}\n");
  fflush(L);
}

// ------------------------------------------------------------------ fd snapshot
static int harness_fd(int fd)
{
  if (fd >= HIGHFD) return 1;
  for (int h = 0; h < NH; h++) {
    if (!C[h].used) continue;
    if (fd == C[h].lsock || fd == C[h].csock) return 1;
    for (int s = 0; s < 3; s++) {
      if (C[h].handles[s] == fd) return 1;
      if (C[h].files[s] && fileno(C[h].files[s]) == fd) return 1;
    }
    if (C[h].sfile && fileno(C[h].sfile) == fd) return 1;
  }
  return 0;
}

static void jfds(const char *key)
{
  fprintf(L, "\"%s\":[", key);
  DIR *d = opendir("/proc/self/fd");
  int first = 1;
  if (d) {
    int dfd = dirfd(d);
    struct dirent *e;
    while ((e = readdir(d))) {
      if (e->d_name[0] == '.') continue;
      int fd = atoi(e->d_name);
      if (fd == dfd || harness_fd(fd)) continue;
      struct stat st;
      if (fstat(fd, &st) < 0) continue;
      fprintf(L, "%s[%d,%llu,%llu,%d,%d]", first ? "" : ",", fd,
              (unsigned long long) st.st_dev, (unsigned long long) st.st_ino,
              fcntl(fd, F_GETFL), fcntl(fd, F_GETFD));
      first = 0;
    }
    closedir(d);
  }
  fprintf(L, "]");
}

static int move_high(int fd)
{
  if (fd < 0) return fd;
  // harness descriptors sit above any soft limit a case sets: lift the soft limit for the dup
  struct rlimit rl, up;
  getrlimit(RLIMIT_NOFILE, &rl);
  up = rl;
  up.rlim_cur = rl.rlim_max < 65536 ? rl.rlim_max : 65536;
  setrlimit(RLIMIT_NOFILE, &up);
  int n = fcntl(fd, F_DUPFD_CLOEXEC, HIGHFD);
  setrlimit(RLIMIT_NOFILE, &rl);
  if (n < 0) return fd;
  close(fd);
  return n;
}


// ------------------------------------------------------------------ misc helpers
static int hexval(int c) { return c >= '0' && c <= '9' ? c - '0' : c >= 'a' && c <= 'f' ? c - 'a' + 10 : -1; }
static char *unhex(const char *h)
{
  size_t n = strlen(h) / 2;
  char *o = malloc(n + 1);
  for (size_t i = 0; i < n; i++) o[i] = (char) (hexval(h[2 * i]) * 16 + hexval(h[2 * i + 1]));
  o[n] = 0;
  return o;
}
// "-" or comma separated hex strings -> NULL-terminated vector (first `skip` slots left free)
static char **unhex_list(const char *spec, int skip, int *count)
{
  int n = 0;
  if (strcmp(spec, "-") != 0) {
    n = 1;
    for (const char *p = spec; *p; p++)
      if (*p == ',') n++;
  }
  char **v = calloc((size_t) (n + skip + 1), sizeof(char *));
  char *dup = strdup(spec), *save = NULL;
  int i = 0;
  if (n > 0) {
    // strtok would skip empty items: walk manually
    char *p = dup;
    for (;;) {
      char *comma = strchr(p, ',');
      if (comma) *comma = 0;
      v[skip + i++] = unhex(p);
      if (!comma) break;
      p = comma + 1;
    }
  }
  (void) save;
  free(dup);
  if (count) *count = i;
  return v;
}

typedef struct {
  sigset_t mask;
  unsigned long act_hash;
  char cwd[4200];
  char **envp;
  unsigned long env_hash;
} caller_state;

extern char **environ;
static unsigned long hash_bytes(unsigned long h, const void *p, size_t n)
{
  const unsigned char *b = p;
  for (size_t i = 0; i < n; i++) h = (h ^ b[i]) * 1099511628211UL;
  return h;
}
static void caller_snapshot(caller_state *cs)
{
  memset(cs, 0, sizeof *cs);
  pthread_sigmask(SIG_SETMASK, NULL, &cs->mask);
  unsigned long h = 1469598103934665603UL;
  for (int sig = 1; sig < 65; sig++) {
    struct sigaction sa;
    memset(&sa, 0, sizeof sa);
    if (sigaction(sig, NULL, &sa) == 0) {
      void *hp = (void *) sa.sa_handler;
      h = hash_bytes(h, &hp, sizeof hp);
      h = hash_bytes(h, &sa.sa_flags, sizeof sa.sa_flags);
      h = hash_bytes(h, &sa.sa_mask, sizeof(unsigned long));
    }
  }
  cs->act_hash = h;
  if (!getcwd(cs->cwd, sizeof cs->cwd)) strcpy(cs->cwd, "?");
  cs->envp = environ;
  h = 1469598103934665603UL;
  for (char **e = environ; e && *e; e++) h = hash_bytes(h, *e, strlen(*e) + 1);
  cs->env_hash = h;
}
static unsigned long mask_bits(const sigset_t *m)
{
  unsigned long b = 0;
  for (int s = 1; s < 65; s++)
    if (sigismember(m, s) == 1) b |= 1UL << (s - 1);
  return b;
}

static const char *kids_state(void)
{
  siginfo_t si;
  si.si_pid = 0;
  int r = waitid(P_ALL, 0, &si, WEXITED | WNOHANG | WNOWAIT);
  if (r < 0) return errno == ECHILD ? "none" : "err";
  return si.si_pid ? "zombie" : "running";
}

static void dummy_handler(int s) { (void) s; }

// ------------------------------------------------------------------ parsing helpers
static char *tok[8192];
static int ntok, tp;

static const char *nexttok(void) { return tp < ntok ? tok[tp++] : NULL; }
static long nextlong(long def)
{
  const char *t = nexttok();
  return t ? strtol(t, NULL, 0) : def;
}
static const char *kv(const char *t, const char *key)
{
  size_t n = strlen(key);
  if (strncmp(t, key, n) == 0 && t[n] == '=') return t + n + 1;
  return NULL;
}

// ------------------------------------------------------------------ sinks
typedef struct {
  int idx;        // 0 = out sink, 1 = err sink
  child_t *c;
  int fail_at, fail_ret, ncalls;
  uint64_t off[3];  // per stream tag
} csink;

static int g_sinkcalls;
static size_t g_sinklen, g_sinkcap;
static void sink_append(const char *txt)
{
  size_t n = strlen(txt);
  if (g_sinklen + n + 1 > g_sinkcap) {
    g_sinkcap = (g_sinklen + n + 1) * 2 + 1024;
    g_sinkbuf = realloc(g_sinkbuf, g_sinkcap);
  }
  memcpy(g_sinkbuf + g_sinklen, txt, n + 1);
  g_sinklen += n;
}
static int custom_sink(REPROC_STREAM stream, const uint8_t *buf, size_t size, void *ctx)
{
  csink *s = ctx;
  long long bad = -1;
  if ((stream == REPROC_STREAM_OUT || stream == REPROC_STREAM_ERR) && size > 0) {
    bad = verify(s->c, (int) stream, s->c->rdoff[stream], buf, size);
    s->c->rdoff[stream] += size;
  }
  char line[128];
  snprintf(line, sizeof line, "%s[%d,%d,%zu,%lld,%lld]", g_sinkcalls++ ? "," : "", s->idx,
           (int) stream, size, bad, (long long) w_vnow);
  sink_append(line);
  int k = s->ncalls++;
  if (k == s->fail_at) return s->fail_ret;
  return 0;
}

// ------------------------------------------------------------------ ops

typedef struct {
  csink cs[2];
  char *str[2];
  char *orig[2];
  long pre[2];
  reproc_sink sk[2];
  char spec[2][32];
} sinkset;

static void sinks_setup(sinkset *ss, child_t *c, const char *so, const char *se)
{
  memset(ss, 0, sizeof *ss);
  for (int i = 0; i < 2; i++) {
    const char *sp = i == 0 ? so : se;
    if (!sp || !*sp) sp = "d";
    snprintf(ss->spec[i], sizeof ss->spec[i], "%s", sp);
    ss->cs[i].idx = i;
    ss->cs[i].c = c;
    ss->cs[i].fail_at = -1;
    if (sp[0] == 's') {
      ss->pre[i] = atol(sp + 1);
      if (ss->pre[i] > 0) {
        ss->str[i] = malloc((size_t) ss->pre[i] + 1);  // plain malloc: the library reallocs it
        memset(ss->str[i], 'p', (size_t) ss->pre[i]);
        ss->str[i][ss->pre[i]] = 0;
        ss->orig[i] = ss->str[i];
        wrap_heap_adopt(ss->str[i]);  // handed over: the sink may realloc or free it
      }
      ss->sk[i] = reproc_sink_string(&ss->str[i]);
    } else if (sp[0] == 'c') {
      if (sp[1]) sscanf(sp + 1, "%d:%d", &ss->cs[i].fail_at, &ss->cs[i].fail_ret);
      ss->sk[i].function = custom_sink;
      ss->sk[i].context = &ss->cs[i];
    } else if (sp[0] == 'n') {
      ss->sk[i] = REPROC_SINK_NULL;
    } else {
      ss->sk[i] = reproc_sink_discard();
    }
  }
}

static void sinks_result(sinkset *ss, child_t *c, char *sres, size_t cap)
{
  sres[0] = 0;
  for (int i = 0; i < 2; i++) {
    if (ss->spec[i][0] != 's') continue;
    // string sink: prefix 'p'*pre then exactly the bytes received (stream i+1 when sinks differ)
    long long bad = -1;
    long len = ss->str[i] ? (long) strlen(ss->str[i]) : -1;
    if (ss->str[i]) {
      for (long j = 0; j < ss->pre[i] && j < len; j++)
        if (ss->str[i][j] != 'p') bad = j;
      if (len >= ss->pre[i] && bad < 0) {
        long long v = verify(c, i + 1, c->rdoff[i + 1], (uint8_t *) ss->str[i] + ss->pre[i],
                             (size_t) (len - ss->pre[i]));
        if (v != -1) bad = v == -2 ? -2 : v + ss->pre[i];
      }
    }
    char b[96];
    snprintf(b, sizeof b, "%s[%d,%ld,%ld,%lld]", sres[0] ? "," : "", i, ss->pre[i], len, bad);
    if (strlen(sres) + strlen(b) + 1 < cap) strcat(sres, b);
    if (len > ss->pre[i]) c->rdoff[i + 1] += (uint64_t) (len - ss->pre[i]);
    ss->str[i] = reproc_free(ss->str[i]);  // grown by the library or still the (adopted) original
  }
}

static void do_runex(int h, child_t *c, const char **argv, reproc_options o, const char *spec)
{
  char so[32] = "d", se[32] = "d";
  sscanf(spec, "%31[^,],%31s", so, se);
  sinkset ss;
  sinks_setup(&ss, c, so, se);
  c->started = 1;
  c->lazy_accept = 1 + W->nchild;  // accept once the library has forked another child
  g_nchild_before_start = W->nchild;
  op_begin("RN", h);
  g_sinkcalls = 0;
  g_sinklen = 0;
  if (g_sinkbuf) g_sinkbuf[0] = 0;
  g_in_sinkcalls = 1;
  // runex=plain: reproc_run (no sinks; its own default for the redirect shorthands)
  int r = strcmp(spec, "plain") == 0 ? reproc_run(argv, o) : reproc_run_ex(argv, o, ss.sk[0], ss.sk[1]);
  g_in_sinkcalls = 0;
  fprintf(L, "{\"i\":%d,\"sinkcalls\":[%s]}\n", g_opidx, g_sinkbuf ? g_sinkbuf : "");
  char sres[200];
  sinks_result(&ss, c, sres, sizeof sres);
  char stds[200] = "";
  for (int fd = 0; fd < 3; fd++) {
    struct stat st;
    char b[64];
    if (fstat(fd, &st) == 0) {
      snprintf(b, sizeof b, "%s[%d,%llu,%llu]", stds[0] ? "," : "", fd, (unsigned long long) st.st_dev,
               (unsigned long long) st.st_ino);
      strcat(stds, b);
    }
  }
  op_end_fmt(r, "\"strs\":[%s],\"pid\":%d,\"std\":[%s]", sres, c->pid, stds);
}
static void setup_child_dir(child_t *c, int h, const char *flags)
{
  snprintf(c->dir, sizeof c->dir, "%s/h%d", g_cdir, h);
  mkdir(c->dir, 0755);
  char p[800];
  snprintf(p, sizeof p, "%s/vc", c->dir);
  unlink(p);
  if (link(g_vchild, p) < 0) {
    // different filesystem: fall back to a copy via symlink-free read/write
    int in = open(g_vchild, O_RDONLY), out = open(p, O_WRONLY | O_CREAT | O_TRUNC, 0755);
    char buf[65536];
    ssize_t r;
    while ((r = read(in, buf, sizeof buf)) > 0)
      if (write(out, buf, (size_t) r) != r) break;
    close(in);
    close(out);
  }
  snprintf(p, sizeof p, "%s/vc.cfg", c->dir);
  FILE *f = fopen(p, "w");
  fprintf(f, "%s/s\n%s\nh%d\n", c->dir, flags, h);
  fclose(f);
  // listener
  snprintf(p, sizeof p, "%s/s", c->dir);
  unlink(p);
  int s = socket(AF_UNIX, SOCK_STREAM | SOCK_CLOEXEC, 0);
  struct sockaddr_un sa;
  memset(&sa, 0, sizeof sa);
  sa.sun_family = AF_UNIX;
  strncpy(sa.sun_path, p, sizeof sa.sun_path - 1);
  if (bind(s, (struct sockaddr *) &sa, sizeof sa) < 0 || listen(s, 4) < 0) {
    fprintf(stderr, "verif: bind %s: %s\n", p, strerror(errno));
    _exit(95);
  }
  c->lsock = move_high(s);
}

static int accept_child(child_t *c)
{
  if ((int) W->nchild == g_nchild_before_start) return -1;  // the library never forked: nobody will connect
  // wait (real time) for the helper to connect; give up early when the newest child the
  // library forked is already gone (exec failed)
  int r = 0;
  for (int i = 0; i < 400 && r <= 0; i++) {
    struct pollfd p = { c->lsock, POLLIN, 0 };
    r = poll(&p, 1, 20);
    if (r > 0) break;
    if (W->nchild > 0) {
      int pid = W->child[W->nchild - 1].pid;
      if (W->child[W->nchild - 1].state == 2) return -1;
      siginfo_t si;
      si.si_pid = 0;
      if (waitid(P_PID, (id_t) pid, &si, WEXITED | WNOHANG | WNOWAIT) < 0 || si.si_pid != 0) {
        // one more look: it may have connected just before dying
        struct pollfd q = { c->lsock, POLLIN, 0 };
        if (poll(&q, 1, 0) <= 0) return -1;
        r = 1;
      }
    }
  }
  if (r <= 0) return -1;
  int s = accept4(c->lsock, NULL, NULL, SOCK_CLOEXEC);
  if (s < 0) return -1;
  c->csock = move_high(s);
  char *m = msg_recv(c->csock, NULL);
  if (!m) return -1;
  int pid = 0;
  char tag[64] = "", exe[8300] = "";
  sscanf(m, "H %d %63s %8299s", &pid, tag, exe);
  free(m);
  c->pid = pid;
  fprintf(L, "{\"ev\":\"hello\",\"h\":%d,\"pid\":%d,\"tag\":\"%s\",\"exe\":\"%s\"}\n",
          (int) (c - C), pid, tag, exe);
  return 0;
}


// Ask the helper for its view of itself (fd table before it opened anything, signal state,
// cwd, argv, environment) and log it as one event.
static void request_ident(child_t *c)
{
  if (c->csock < 0) return;
  if (msg_send(c->csock, "I", 1) < 0) return;
  uint32_t n = 0;
  char *m = msg_recv(c->csock, &n);
  if (!m) return;
  fprintf(L, "{\"ev\":\"ident\",\"h\":%d,\"fds\":[", (int) (c - C));
  int first = 1;
  char *save = NULL;
  // pass 1: fds
  char *copy = strdup(m);
  for (char *line = strtok_r(copy, "\n", &save); line; line = strtok_r(NULL, "\n", &save)) {
    int fd, fl, fdfl;
    unsigned long long dev, ino, rdev;
    unsigned mode;
    if (sscanf(line, "fd %d %llu %llu %llu %o %d %d", &fd, &dev, &ino, &rdev, &mode, &fl, &fdfl) == 7) {
      fprintf(L, "%s[%d,%llu,%llu,%llu,%u,%d,%d]", first ? "" : ",", fd, dev, ino, rdev, mode, fl, fdfl);
      first = 0;
    }
  }
  free(copy);
  fprintf(L, "],\"sig\":{");
  first = 1;
  copy = strdup(m);
  for (char *line = strtok_r(copy, "\n", &save); line; line = strtok_r(NULL, "\n", &save)) {
    char name[16], val[40];
    if (sscanf(line, "sig %15s %39s", name, val) == 2) {
      fprintf(L, "%s\"%s\":\"%s\"", first ? "" : ",", name, val);
      first = 0;
    }
  }
  free(copy);
  fprintf(L, "},");
  const char *keys[3] = { "cwd", "arg", "env" };
  for (int k = 0; k < 3; k++) {
    fprintf(L, "\"%s\":[", keys[k]);
    first = 1;
    copy = strdup(m);
    size_t kl = strlen(keys[k]);
    for (char *line = strtok_r(copy, "\n", &save); line; line = strtok_r(NULL, "\n", &save)) {
      if (strncmp(line, keys[k], kl) == 0 && (line[kl] == ' ' || line[kl] == 0)) {
        fprintf(L, "%s\"%s\"", first ? "" : ",", line[kl] ? line + kl + 1 : "");
        first = 0;
      }
    }
    free(copy);
    fprintf(L, "]%s", k < 2 ? "," : "");
  }
  fprintf(L, "}\n");
  free(m);
}

static void do_start(int h)
{
  child_t *c = &C[h];
  reproc_options o;
  memset(&o, 0, sizeof o);
  const char *prog = "vc";
  char flags[128] = "";
  int argvnull = 0, usewd = 0, rfile = 0, rpath = 0, want_ident = 0, nofile = 0, hlow = 0;
  const char *inchild = NULL;
  int forkexec = 0;
  int selffile[3] = { -1, -1, -1 };  // f<stream>std=N: the caller's own stdout (1) / stderr (2) FILE as the redirect FILE
  int rootrel = 0;  // rootrel=1: the caller's working directory is "/" and the program is named relative to it
  long bigarg = 0;  // bigarg=N: one argument of N bytes (beyond MAX_ARG_STRLEN the kernel refuses the exec with E2BIG)
  int selffd[3] = { -1, -1, -1 };  // h<stream>fd=N: the caller passes its own descriptor N as the handle (1>&2 style)
  const char *runex = NULL, *argvx = NULL, *envx = NULL, *wdx = NULL, *progx = NULL;
  const char *pathmode = NULL, *handlemode = NULL;
  long inputsz = -1;
  static const char *extra[40];
  static char extrabuf[40][32];
  strcpy(c->term, "now");
  strcpy(c->skill, "now");
  const char *t, *v;
  while ((t = nexttok()) && strcmp(t, ";") != 0) {
    if ((v = kv(t, "prog"))) prog = v;
    else if ((v = kv(t, "wd"))) usewd = atoi(v);
    else if ((v = kv(t, "env"))) o.env.behavior = (REPROC_ENV) atoi(v);
    else if ((v = kv(t, "extra"))) {
      int n = atoi(v);
      if (n > 39) n = 39;
      for (int i = 0; i < n; i++) {
        snprintf(extrabuf[i], sizeof extrabuf[i], "VX%d=v%d", i, i);
        extra[i] = extrabuf[i];
      }
      extra[n] = NULL;
      o.env.extra = extra;
    } else if ((v = kv(t, "in"))) o.redirect.in.type = (REPROC_REDIRECT) atoi(v);
    else if ((v = kv(t, "out"))) o.redirect.out.type = (REPROC_REDIRECT) atoi(v);
    else if ((v = kv(t, "err"))) o.redirect.err.type = (REPROC_REDIRECT) atoi(v);
    else if ((v = kv(t, "rparent"))) o.redirect.parent = atoi(v);
    else if ((v = kv(t, "rdiscard"))) o.redirect.discard = atoi(v);
    else if ((v = kv(t, "stop"))) {
      int a[6] = { 0 };
      sscanf(v, "%d:%d:%d:%d:%d:%d", &a[0], &a[1], &a[2], &a[3], &a[4], &a[5]);
      o.stop.first.action = (REPROC_STOP) a[0];
      o.stop.first.timeout = a[1];
      o.stop.second.action = (REPROC_STOP) a[2];
      o.stop.second.timeout = a[3];
      o.stop.third.action = (REPROC_STOP) a[4];
      o.stop.third.timeout = a[5];
    } else if ((v = kv(t, "dl"))) o.deadline = atoi(v);
    else if ((v = kv(t, "input"))) inputsz = atol(v);
    else if ((v = kv(t, "nb"))) o.nonblocking = atoi(v);
    else if ((v = kv(t, "fork"))) { o.fork = atoi(v) != 0; forkexec = atoi(v) == 2; }   // 2: the child side execs the helper itself
    else if ((v = kv(t, "term"))) snprintf(c->term, sizeof c->term, "%s", v);
    else if ((v = kv(t, "skill"))) snprintf(c->skill, sizeof c->skill, "%s", v);
    else if ((v = kv(t, "ignpipe"))) strcat(flags, " ignpipe");
    else if ((v = kv(t, "argvnull"))) argvnull = atoi(v);
    else if ((v = kv(t, "text"))) { c->text = atoi(v); if (c->text) strcat(flags, " text"); }
    else if ((v = kv(t, "runex"))) runex = v;
    else if ((v = kv(t, "nofile"))) nofile = atoi(v);
    else if ((v = kv(t, "hlow"))) hlow = atoi(v);
    else if ((v = kv(t, "rfile"))) rfile = atoi(v);
    else if ((v = kv(t, "rpath"))) rpath = atoi(v);
    else if ((v = kv(t, "argvx"))) argvx = v;
    else if ((v = kv(t, "envx"))) envx = v;
    else if ((v = kv(t, "wdx"))) wdx = v;
    else if ((v = kv(t, "progx"))) progx = v;
    else if ((v = kv(t, "ident"))) want_ident = atoi(v);
    else if ((v = kv(t, "pathmode"))) pathmode = v;
    else if ((v = kv(t, "handlemode"))) handlemode = v;
    else if ((v = kv(t, "inchild"))) inchild = v;
    else if ((v = kv(t, "bigarg"))) bigarg = atol(v);
    else if ((v = kv(t, "rootrel"))) rootrel = atoi(v);
    else if ((v = kv(t, "foutstd"))) selffile[1] = atoi(v);
    else if ((v = kv(t, "ferrstd"))) selffile[2] = atoi(v);
    else if ((v = kv(t, "hinfd"))) selffd[0] = atoi(v);
    else if ((v = kv(t, "houtfd"))) selffd[1] = atoi(v);
    else if ((v = kv(t, "herrfd"))) selffd[2] = atoi(v);
    else if ((v = kv(t, "hin"))) o.redirect.in.handle = atoi(v) ? -2 : 0;
    else if ((v = kv(t, "hout"))) o.redirect.out.handle = atoi(v) ? -2 : 0;
    else if ((v = kv(t, "herr"))) o.redirect.err.handle = atoi(v) ? -2 : 0;
  }
  if (tp > 0 && tp <= ntok && strcmp(tok[tp - 1], ";") == 0) tp--;
  if (strcmp(c->term, "ign") == 0) strcat(flags, " ign15");
  if (c->term[0] == 'h') {
    const char *colon = strchr(c->term, ':');
    char b[32];
    snprintf(b, sizeof b, " h15=%d", colon ? atoi(colon + 1) : 3);
    strcat(flags, b);
  }
  int restart = c->lsock >= 0 && c->dir[0];
  if (!restart) setup_child_dir(c, h, flags);

  // redirect operands
  reproc_redirect *rd[3] = { &o.redirect.in, &o.redirect.out, &o.redirect.err };
  static char paths[3][800];
  for (int s = 0; s < 3; s++) {
    snprintf(paths[s], sizeof paths[s], "%s/redir%d", c->dir, s);
    if (pathmode && !strcmp(pathmode, "missing")) snprintf(paths[s], sizeof paths[s], "%s/nodir/redir%d", c->dir, s);
    if (pathmode && !strcmp(pathmode, "dir")) snprintf(paths[s], sizeof paths[s], "%s", c->dir);
    if (rd[s]->type == REPROC_REDIRECT_PATH) rd[s]->path = paths[s];
    if (selffd[s] >= 0) {
      rd[s]->type = REPROC_REDIRECT_HANDLE;
      rd[s]->handle = selffd[s];
      continue;
    }
    if (selffile[s] == 1 || selffile[s] == 2) {
      rd[s]->type = REPROC_REDIRECT_FILE;
      rd[s]->file = selffile[s] == 1 ? stdout : stderr;
      continue;
    }
    if (rd[s]->type == REPROC_REDIRECT_HANDLE || rd[s]->handle == -2) {
      if (c->handles[s] < 0)
        c->handles[s] = hlow ? open(paths[s], O_RDWR | O_CREAT, 0644)  // low number, inheritable
                             : move_high(open(paths[s], O_RDWR | O_CREAT | O_CLOEXEC, 0644));
      rd[s]->handle = c->handles[s];
      if (handlemode && !strcmp(handlemode, "closed")) {
        close(c->handles[s]);
        rd[s]->handle = c->handles[s];
        c->handles[s] = -1;
      }
    }
    if (rd[s]->type == REPROC_REDIRECT_FILE) {
      if (!c->files[s]) {
        int fd = hlow ? open(paths[s], O_RDWR | O_CREAT, 0644)
                      : move_high(open(paths[s], O_RDWR | O_CREAT | O_CLOEXEC, 0644));
        c->files[s] = fdopen(fd, s == 0 ? "r" : "w");
      }
      rd[s]->file = c->files[s];
    }
  }
  static char spath[800];
  if (rpath) {
    snprintf(spath, sizeof spath, "%s/redir_short", c->dir);
    o.redirect.path = spath;
  }
  if (rfile) {
    if (!c->sfile) {
      snprintf(spath, sizeof spath, "%s/redir_short", c->dir);
      int fd = move_high(open(spath, O_RDWR | O_CREAT | O_CLOEXEC, 0644));
      c->sfile = fdopen(fd, "w");
    }
    o.redirect.file = c->sfile;
  }
  // effective types for bookkeeping (documented defaults)
  int plain_parent = runex && !strcmp(runex, "plain") && !o.redirect.discard && !o.redirect.file &&
                     !o.redirect.path;
  for (int s = 0; s < 3; s++) {
    int ty = rd[s]->type;
    if (ty == REPROC_REDIRECT_DEFAULT) {
      if (o.redirect.parent || plain_parent) ty = REPROC_REDIRECT_PARENT;
      else if (o.redirect.discard) ty = REPROC_REDIRECT_DISCARD;
      else ty = s == 2 ? REPROC_REDIRECT_PARENT : REPROC_REDIRECT_PIPE;
    }
    c->rtype[s] = ty;
  }

  uint8_t *input = NULL;
  if (inputsz >= 0) {
    input = malloc((size_t) inputsz ? (size_t) inputsz : 1);
    for (long i = 0; i < inputsz; i++) input[i] = poscode(0, (uint64_t) i);
    o.input.data = input;
    o.input.size = (size_t) inputsz;
  }

  char wd[800];
  if (usewd) {
    snprintf(wd, sizeof wd, "%s/wd", c->dir);
    mkdir(wd, 0755);
    o.working_directory = wd;
  }

  if (usewd == 2) {
    snprintf(wd, sizeof wd, "%s/no/such/dir", c->dir);
    o.working_directory = wd;
  } else if (usewd == 3) {
    snprintf(wd, sizeof wd, "%s/vc.cfg", c->dir);
    o.working_directory = wd;
  }
  if (wdx) o.working_directory = unhex(wdx);
  static char progpath[70000];
  if (progx) {
    char *p = unhex(progx);
    snprintf(progpath, sizeof progpath, "%s", p);
    free(p);
  } else if (!strcmp(prog, "vc")) snprintf(progpath, sizeof progpath, "%s/vc", c->dir);
  else if (!strcmp(prog, "interp")) {
    snprintf(progpath, sizeof progpath, "%s/script", c->dir);
    FILE *sf = fopen(progpath, "w");
    fprintf(sf, "#!/nonexistent/interpreter\n");
    fclose(sf);
    chmod(progpath, 0755);
  } else if (!strcmp(prog, "long")) {
    memset(progpath, 'x', 5000);
    progpath[0] = '/';
    progpath[5000] = 0;
  } else if (!strcmp(prog, "empty")) progpath[0] = 0;
  else if (!strcmp(prog, "missing")) snprintf(progpath, sizeof progpath, "%s/nope", c->dir);
  else if (!strcmp(prog, "dir")) snprintf(progpath, sizeof progpath, "%s", c->dir);
  else if (!strcmp(prog, "noexec")) snprintf(progpath, sizeof progpath, "%s/vc.cfg", c->dir);
  else snprintf(progpath, sizeof progpath, "%s", prog);
  int backfd = -1;
  if (rootrel && progpath[0] == '/') {
    backfd = open(".", O_RDONLY | O_DIRECTORY | O_CLOEXEC);
    if (backfd >= 0) backfd = move_high(backfd);
    if (chdir("/") == 0) memmove(progpath, progpath + 1, strlen(progpath));  // drop the leading slash
  }
  const char *argv_default[] = { progpath, "a1", NULL };
  const char **argv = argv_default;
  if (argvx) {
    char **v = unhex_list(argvx, 1, NULL);
    v[0] = progpath;
    argv = (const char **) v;
  }
  if (envx) o.env.extra = (const char *const *) unhex_list(envx, 0, NULL);
  static const char *argv_big[3];
  if (bigarg > 0) {
    char *b = malloc((size_t) bigarg + 1);
    memset(b, 'a', (size_t) bigarg);
    b[bigarg] = 0;
    argv_big[0] = progpath;
    argv_big[1] = b;
    argv_big[2] = NULL;
    argv = argv_big;
  }

  c->want_ident = want_ident;
  if (runex) {
    // RN: reproc_run_ex(argv, options, sinks): runex=<outsink>,<errsink> (d | s<pre> | c | c<k>:<ret>)
    do_runex(h, c, argv, o, runex);
    free(input);
    return;
  }
  caller_state before, after;
  caller_snapshot(&before);
  struct rlimit rl_old, rl_new;
  getrlimit(RLIMIT_NOFILE, &rl_old);
  if (nofile > 0) {
    rl_new = rl_old;
    rl_new.rlim_cur = (rlim_t) nofile;
    setrlimit(RLIMIT_NOFILE, &rl_new);
  }
  op_begin("S", h);
  g_nchild_before_start = W->nchild;
  w_in_start = 1;
  int r = reproc_start(c->p, (o.fork || argvnull) ? NULL : argv, o);
  w_in_start = 0;
  if (backfd >= 0 && w_side == 0) {
    if (fchdir(backfd) < 0) fprintf(stderr, "verif: cannot return from /\n");
    close(backfd);
  }
  if (nofile > 0 && w_side == 0) setrlimit(RLIMIT_NOFILE, &rl_old);
  if (w_side == 0 && g_faults_start_only) W->faults_disabled = 1;
  if (r == 0 && w_side == 1) {
    // child side of a fork-mode start: only destroy is allowed; then act as the helper
    char *forksnap = vchild_snapshot_text();  // streams and signal state exactly as start left them
    W->inchild_ret = 0;
    if (inchild) {
      // the handle is in the "child side of a fork" state: every call must say so, none may act
      uint8_t b[8];
      reproc_event_source src = { c->p, REPROC_EVENT_OUT | REPROC_EVENT_EXIT, 0 };
      reproc_options o2 = { 0 };
      for (const char *q = inchild; *q && W->inchild_n < 12; q++) {
        int v = -9999;
        switch (*q) {
          case 'S': v = reproc_start(c->p, argv, o2); break;
          case 'F': o2.fork = true; v = reproc_start(c->p, NULL, o2); o2.fork = false; break;
          case 'W': v = reproc_wait(c->p, 0); break;
          case 'P': v = reproc_pid(c->p); break;
          case 'T': v = reproc_terminate(c->p); break;
          case 'K': v = reproc_kill(c->p); break;
          case 'R': v = reproc_read(c->p, REPROC_STREAM_OUT, b, sizeof b); break;
          case 'O': v = reproc_write(c->p, b, 1); break;
          case 'C': v = reproc_close(c->p, REPROC_STREAM_IN); break;
          case 'L': v = reproc_poll(&src, 1, 0); break;
          case 'Z': v = reproc_stop(c->p, (reproc_stop_actions){ { REPROC_STOP_WAIT, 0 }, { 0 }, { 0 } }); break;
        }
        W->inchild_res[W->inchild_n] = v;
        W->inchild_n = W->inchild_n + 1;
      }
    }
    reproc_t *d = reproc_destroy(c->p);
    W->inchild_done = d == NULL ? 1 : 2;
    char sp[800];
    snprintf(sp, sizeof sp, "%s/s", c->dir);
    if (forkexec && !strcmp(prog, "vc")) {
      // a fork-mode child that runs a program of its own: whatever start left in this process (the exit
      // handle above all) has to survive the exec for the parent's view of the child to stay true
      execv(argv[0], (char *const *) argv);
      _exit(111);
    }
    vchild_run(sp, flags, "forkchild", forksnap ? forksnap : "", 0, NULL);
    _exit(0);
  }
  int hello = 0;
  if (r > 0 && !c->started) {
    c->started = 1;
    if (inputsz >= 0) c->wroff = (uint64_t) inputsz;
    hello = accept_child(c) == 0 ? 1 : -1;
  }
  free(input);
  caller_snapshot(&after);
  const char *kids = kids_state();
  char libfds[600] = "";
  {
    int fds[40];
    int n = wrap_owned_fds(fds, 40);
    for (int i = 0; i < n; i++) {
      struct stat st;
      if (fstat(fds[i], &st) < 0) continue;
      char b[64];
      snprintf(b, sizeof b, "%s[%d,%llu,%d]", libfds[0] ? "," : "", fds[i],
               (unsigned long long) st.st_ino, fcntl(fds[i], F_GETFL));
      if (strlen(libfds) + strlen(b) + 1 < sizeof libfds) strcat(libfds, b);
    }
  }
  if (hello == 1 && want_ident) request_ident(c);
  char objs[900] = "";
  {
    struct stat st;
    char b[128];
    for (int sidx = 0; sidx < 3; sidx++) {
      const char *kind = NULL;
      int ok = -1;
      if (rd[sidx]->type == REPROC_REDIRECT_HANDLE || (rd[sidx]->handle && rd[sidx]->type == 0)) {
        kind = "handle";
        ok = c->handles[sidx] >= 0 ? fstat(c->handles[sidx], &st) : -1;
      } else if (rd[sidx]->file) {
        kind = "file";
        ok = fstat(fileno(rd[sidx]->file), &st);
      } else if (rd[sidx]->path) {
        kind = "path";
        ok = stat(rd[sidx]->path, &st);
      }
      if (kind && ok == 0) {
        snprintf(b, sizeof b, "%s[%d,\"%s\",%llu,%llu]", objs[0] ? "," : "", sidx, kind,
                 (unsigned long long) st.st_dev, (unsigned long long) st.st_ino);
        strcat(objs, b);
      }
    }
    if (o.redirect.file && fstat(fileno(o.redirect.file), &st) == 0) {
      snprintf(b, sizeof b, "%s[-1,\"sfile\",%llu,%llu]", objs[0] ? "," : "", (unsigned long long) st.st_dev,
               (unsigned long long) st.st_ino);
      strcat(objs, b);
    }
    if (o.redirect.path && stat(o.redirect.path, &st) == 0) {
      snprintf(b, sizeof b, "%s[-1,\"spath\",%llu,%llu]", objs[0] ? "," : "", (unsigned long long) st.st_dev,
               (unsigned long long) st.st_ino);
      strcat(objs, b);
    }
    for (int fd = 0; fd < 3; fd++)
      if (fstat(fd, &st) == 0) {
        snprintf(b, sizeof b, "%s[%d,\"std\",%llu,%llu]", objs[0] ? "," : "", fd, (unsigned long long) st.st_dev,
                 (unsigned long long) st.st_ino);
        strcat(objs, b);
      }
  }
  op_end_fmt(r, "\"hello\":%d,\"pid\":%d,\"kids\":\"%s\",\"caller\":{\"mask\":[%lu,%lu],\"act\":%d,"
                "\"cwd\":%d,\"env\":%d},\"lib_fds\":[%s],\"objs\":[%s]",
             hello, c->pid, kids, mask_bits(&before.mask), mask_bits(&after.mask),
             before.act_hash != after.act_hash, strcmp(before.cwd, after.cwd) != 0,
             before.envp != after.envp || before.env_hash != after.env_hash, libfds, objs);
}

static void op_read(int h, int stream, long size, int probe)
{
  child_t *c = &C[h];
  uint8_t *buf = malloc((size_t) size);
  g_oparg = stream;
  op_begin("RD", h);
  int r = reproc_read(c->p, (REPROC_STREAM) stream, buf, (size_t) size);
  long long bad = -1;
  uint64_t off = (stream == 1 || stream == 2) ? c->rdoff[stream] : 0;
  if (r > 0 && (stream == 1 || stream == 2)) {
    if ((long) r > size) bad = -3;
    else bad = verify(c, stream, off, buf, (size_t) r);
    c->rdoff[stream] += (uint64_t) r;
  }
  op_end_fmt(r, "\"st\":%d,\"size\":%ld,\"off\":%llu,\"bad\":%lld,\"probe\":%d", stream, size,
             (unsigned long long) off, bad, probe);
  free(buf);
}

static void op_write(int h, long size, int probe)
{
  child_t *c = &C[h];
  uint8_t *buf = NULL;
  if (size >= 0) {
    buf = malloc((size_t) size);
    for (long i = 0; i < size; i++) buf[i] = poscode(0, c->wroff + (uint64_t) i);
  }
  op_begin("WR", h);
  int r = reproc_write(c->p, buf, size < 0 ? (size_t) (-size - 1) : (size_t) size);
  if (r > 0) c->wroff += (uint64_t) r;
  op_end_fmt(r, "\"size\":%ld,\"woff\":%llu,\"probe\":%d", size, (unsigned long long) c->wroff,
             probe);
  free(buf);
}

static void run_script(void)
{
  const char *t;
  while ((t = nexttok())) {
    if (!strcmp(t, ";")) continue;
    if (!strcmp(t, "rlimit")) {
      struct rlimit rl;
      getrlimit(RLIMIT_NOFILE, &rl);
      rl.rlim_cur = (rlim_t) nextlong(256);
      setrlimit(RLIMIT_NOFILE, &rl);
    } else if (!strcmp(t, "traceall")) {
      g_traceall = 1;
    } else if (!strcmp(t, "faults1")) {
      g_faults_start_only = 1;  // faults apply to the first reproc_start only
    } else if (!strcmp(t, "epoch")) {
      w_epoch_ms = 1700000000000LL + nextlong(0);
    } else if (!strcmp(t, "F")) {
      int side = (int) nextlong(0);
      const char *fn = nexttok();
      int k = (int) nextlong(0);
      int err = (int) nextlong(EIO);
      int f = fn ? wrap_fn_by_name(fn) : -1;
      if (f >= 0) wrap_add_fault(side, f, k, err);
    } else if (!strcmp(t, "FOFF")) {
      W->faults_disabled = 1;  // whatever has not fired yet never will
    } else if (!strcmp(t, "FR")) {
      // FR fn k err : like F on the parent side, k counted from this point of the scenario
      const char *fn = nexttok();
      int k = (int) nextlong(0);
      int err = (int) nextlong(EIO);
      int f = fn ? wrap_fn_by_name(fn) : -1;
      if (f >= 0) wrap_add_fault_rel(f, k, err);
    } else if (!strcmp(t, "N")) {
      int h = (int) nextlong(0);
      op_begin("N", h);
      C[h].used = 1;
      C[h].p = reproc_new();
      op_end_fmt(C[h].p != NULL, NULL);
    } else if (!strcmp(t, "S")) {
      int h = (int) nextlong(0);
      do_start(h);
    } else if (!strcmp(t, "E")) {
      int h = (int) nextlong(0);
      child_t *c = &C[h];
      cevent e = { 0 };
      e.t = nextlong(0);
      const char *cmd = nexttok();
      e.cmd = cmd ? cmd[0] : '?';
      e.a = nextlong(0);
      if (e.cmd == 'W') e.b = nextlong(0);
      if (c->nev < 64) c->ev[c->nev++] = e;
      c->used = 1;
    } else if (!strcmp(t, "Z")) {
      long ms = nextlong(0);
      op_begin("Z", -1);
      int64_t end = w_vnow + ms;
      for (;;) {
        int64_t nx = sched_next();
        if (nx > end) break;
        w_vnow = nx;
        sched_run(w_vnow);
      }
      w_vnow = end;
      sched_run(w_vnow);
      op_end_fmt(0, NULL);
    } else if (!strcmp(t, "P")) {
      int h = (int) nextlong(0);
      op_begin("P", h);
      int r = reproc_pid(C[h].p);
      op_end_fmt(r, NULL);
    } else if (!strcmp(t, "W")) {
      int h = (int) nextlong(0);
      int to = (int) nextlong(0);
      g_oparg = to;
      op_begin("W", h);
      int r = reproc_wait(C[h].p, to);
      op_end_fmt(r, "\"to\":%d", to);
    } else if (!strcmp(t, "T") || !strcmp(t, "K")) {
      int h = (int) nextlong(0);
      op_begin(t, h);
      int r = t[0] == 'T' ? reproc_terminate(C[h].p) : reproc_kill(C[h].p);
      op_end_fmt(r, NULL);
    } else if (!strcmp(t, "ST")) {
      int h = (int) nextlong(0);
      reproc_stop_actions s;
      s.first.action = (REPROC_STOP) nextlong(0);
      s.first.timeout = (int) nextlong(0);
      s.second.action = (REPROC_STOP) nextlong(0);
      s.second.timeout = (int) nextlong(0);
      s.third.action = (REPROC_STOP) nextlong(0);
      s.third.timeout = (int) nextlong(0);
      op_begin("ST", h);
      int r = reproc_stop(C[h].p, s);
      op_end_fmt(r, NULL);
    } else if (!strcmp(t, "RD")) {
      int h = (int) nextlong(0);
      int stream = (int) nextlong(1);
      long size = nextlong(0);
      op_read(h, stream, size, 0);
    } else if (!strcmp(t, "WR")) {
      int h = (int) nextlong(0);
      long size = nextlong(0);
      op_write(h, size, 0);
    } else if (!strcmp(t, "CL")) {
      int h = (int) nextlong(0);
      int stream = (int) nextlong(0);
      op_begin("CL", h);
      int r = reproc_close(C[h].p, (REPROC_STREAM) stream);
      op_end_fmt(r, "\"st\":%d", stream);
    } else if (!strcmp(t, "PL") || !strcmp(t, "PLP")) {
      int probe = t[2] == 'P';
      int to = (int) nextlong(0);
      int n = (int) nextlong(0);
      if (n < 0) n = 0;
      if (n > 2000) n = 2000;
      reproc_event_source *src = calloc((size_t) n + 1, sizeof *src);
      int *hs = calloc((size_t) n + 1, sizeof *hs);
      for (int i = 0; i < n; i++) {
        const char *hh = nexttok();
        hs[i] = (hh && hh[0] != '-') ? atoi(hh) : -1;
        src[i].process = hs[i] >= 0 ? C[hs[i]].p : NULL;
        src[i].interests = (int) nextlong(0);
        src[i].events = 0x5a5a0000;  // poison: must be overwritten or left alone
      }
      op_begin("PL", -1);
      int r = reproc_poll(n > 0 ? src : NULL, (size_t) n, to);
      char *ev = calloc((size_t) n + 1, 48);
      size_t evn = 0;
      for (int i = 0; i < n; i++)
        evn += (size_t) snprintf(ev + evn, 48, "%s[%d,%d,%d]", i ? "," : "", hs[i], src[i].interests, src[i].events);
      op_end_fmt(r, "\"to\":%d,\"src\":[%s]", to, ev);
      free(ev);
      if (probe && r > 0) {
        // a reported event promises that the matching call will not block or time out
        int probed[NH] = { 0 };
        for (int i = 0; i < n; i++) {
          if (hs[i] < 0 || (src[i].events & ~31)) continue;
          int e = src[i].events & ~probed[hs[i]];  // one probe per (handle, event)
          probed[hs[i]] |= src[i].events;
          if (e & REPROC_EVENT_OUT) op_read(hs[i], 1, 1, 1);
          if (e & REPROC_EVENT_ERR) op_read(hs[i], 2, 1, 1);
          if (e & REPROC_EVENT_IN) op_write(hs[i], 1, 1);
          if (e & REPROC_EVENT_EXIT) {
            op_begin("W", hs[i]);
            int q = reproc_wait(C[hs[i]].p, 0);
            op_end_fmt(q, "\"to\":0,\"probe\":1");
          }
        }
      }
      free(src);
      free(hs);
    } else if (!strcmp(t, "DR")) {
      // DR h <outsink> <errsink>     sink: d | n | s<prefixlen> | c | c<k>:<ret>
      int h = (int) nextlong(0);
      child_t *c = &C[h];
      const char *so = nexttok(), *se = nexttok();
      sinkset ss;
      sinks_setup(&ss, c, so, se);
      op_begin("DR", h);
      g_sinkcalls = 0;
      g_sinklen = 0;
      if (g_sinkbuf) g_sinkbuf[0] = 0;
      g_in_sinkcalls = 1;
      int r = reproc_drain(c->p, ss.sk[0], ss.sk[1]);
      g_in_sinkcalls = 0;
      fprintf(L, "{\"i\":%d,\"sinkcalls\":[%s]}\n", g_opidx, g_sinkbuf ? g_sinkbuf : "");
      char sres[200];
      sinks_result(&ss, c, sres, sizeof sres);
      op_end_fmt(r, "\"strs\":[%s]", sres);
    } else if (!strcmp(t, "RA")) {
      // RA h stream bufsize: read until EPIPE / error / hang; nonblocking EAGAIN -> poll for it
      int h = (int) nextlong(0);
      int stream = (int) nextlong(1);
      long size = nextlong(4096);
      child_t *c = &C[h];
      uint8_t *buf = malloc((size_t) size);
      long long total = 0, bad = -1;
      long nreads = 0, eagains = 0, maxret = 0;
      int r;
      g_oparg = stream;
      op_begin("RA", h);
      for (;;) {
        sched_run(w_vnow);
        r = reproc_read(c->p, (REPROC_STREAM) stream, buf, (size_t) size);
        nreads++;
        if (r > 0) {
          if (r > size && bad == -1) bad = -3;
          long long v = verify(c, stream, c->rdoff[stream], buf, (size_t) r);
          if (v != -1 && bad == -1) bad = v;
          c->rdoff[stream] += (uint64_t) r;
          total += r;
          if (r > maxret) maxret = r;
          continue;
        }
        if (r == REPROC_EWOULDBLOCK && eagains < 100000) {
          eagains++;
          reproc_event_source src = { c->p, stream == 1 ? REPROC_EVENT_OUT : REPROC_EVENT_ERR, 0 };
          int q = reproc_poll(&src, 1, REPROC_INFINITE);
          if (q < 0) {
            r = q;
            break;
          }
          if (src.events & REPROC_EVENT_DEADLINE) {
            r = REPROC_ETIMEDOUT;
            break;
          }
          continue;
        }
        break;
      }
      op_end_fmt(r, "\"st\":%d,\"size\":%ld,\"total\":%lld,\"bad\":%lld,\"nreads\":%ld,\"eagains\":%ld,\"maxret\":%ld",
                 stream, size, total, bad, nreads, eagains, maxret);
      free(buf);
    } else if (!strcmp(t, "WA")) {
      // WA h total chunk: write position-coded data until total bytes were accepted
      int h = (int) nextlong(0);
      long total = nextlong(0), chunk = nextlong(4096);
      child_t *c = &C[h];
      uint8_t *buf = malloc((size_t) chunk);
      long long done = 0;
      long nwrites = 0, eagains = 0, partial = 0;
      int r = 0;
      op_begin("WA", h);
      while (done < total) {
        long n = total - done < chunk ? total - done : chunk;
        for (long i = 0; i < n; i++) buf[i] = poscode(0, c->wroff + (uint64_t) i);
        sched_run(w_vnow);
        r = reproc_write(c->p, buf, (size_t) n);
        nwrites++;
        if (r > 0) {
          if (r < n) partial++;
          c->wroff += (uint64_t) r;
          done += r;
          continue;
        }
        if (r == 0 && n > 0) break;
        if (r == REPROC_EWOULDBLOCK && eagains < 100000) {
          eagains++;
          reproc_event_source src = { c->p, REPROC_EVENT_IN, 0 };
          int q = reproc_poll(&src, 1, REPROC_INFINITE);
          if (q < 0) {
            r = q;
            break;
          }
          if (src.events & REPROC_EVENT_DEADLINE) {
            r = REPROC_ETIMEDOUT;
            break;
          }
          continue;
        }
        break;
      }
      op_end_fmt(r, "\"total\":%ld,\"done\":%lld,\"nwrites\":%ld,\"eagains\":%ld,\"partial\":%ld,\"woff\":%llu",
                 total, done, nwrites, eagains, partial, (unsigned long long) c->wroff);
      free(buf);
    } else if (!strcmp(t, "D")) {
      int h = (int) nextlong(0);
      op_begin("D", h);
      reproc_t *r = reproc_destroy(C[h].p);
      C[h].p = NULL;
      op_end_fmt(r == NULL ? 0 : 1, NULL);
    } else if (!strcmp(t, "DN")) {
      op_begin("DN", -1);
      reproc_t *r = reproc_destroy(NULL);
      op_end_fmt(r == NULL ? 0 : 1, NULL);
    } else if (!strcmp(t, "CLOSE012")) {
      int mask = (int) nextlong(0);
      for (int i = 0; i < 3; i++)
        if (mask & (1 << i)) close(i);
    } else if (!strcmp(t, "OPENFDS")) {
      // OPENFDS n seed incl_max : open n extra descriptors at random numbers (mixed kinds,
      // half without close-on-exec); logs the list
      int n = (int) nextlong(0);
      uint32_t x = (uint32_t) nextlong(1) * 2654435761u + 7;
      int inclmax = (int) nextlong(0);
      struct rlimit rl;
      getrlimit(RLIMIT_NOFILE, &rl);
      int lim = (int) rl.rlim_cur;
      fprintf(L, "{\"openfds\":[");
      int first = 1;
      for (int i = 0; i < n; i++) {
        x ^= x << 13; x ^= x >> 17; x ^= x << 5;
        int target = (inclmax && i == 0) ? lim - 1 : 3 + (int) (x % (unsigned) (lim - 3));
        if (target >= HIGHFD && target != lim - 1) target = 3 + (int) (x % (unsigned) (HIGHFD - 3));
        if (fcntl(target, F_GETFD) >= 0) continue;  // taken
        int src;
        int kind = (x >> 8) % 3;
        if (kind == 0) src = open("/dev/null", O_RDWR);
        else if (kind == 1) {
          int pp[2];
          if (pipe(pp) < 0) continue;
          src = pp[0];
          close(pp[1]);
        } else src = socket(AF_UNIX, SOCK_STREAM, 0);
        if (src < 0) continue;
        int cloexec = (x >> 12) & 1;
        int got = cloexec ? dup3(src, target, O_CLOEXEC) : dup2(src, target);
        if (src != target) close(src);
        if (got < 0) continue;
        fprintf(L, "%s[%d,%d]", first ? "" : ",", target, cloexec);
        first = 0;
      }
      fprintf(L, "],\"limit\":%d}\n", lim);
    } else if (!strcmp(t, "ENV")) {
      // ENV n seed : replace the parent's environment by n random entries
      int n = (int) nextlong(0);
      uint32_t x = (uint32_t) nextlong(1) * 2654435761u + 3;
      char **e = calloc((size_t) n + 1, sizeof(char *));
      for (int i = 0; i < n; i++) {
        x ^= x << 13; x ^= x >> 17; x ^= x << 5;
        int len = (int) (x % 40);
        char *v = malloc((size_t) len + 24);
        int k = snprintf(v, 24, "K%d=", i);
        for (int j = 0; j < len; j++) {
          x = x * 1103515245u + 12345u;
          unsigned char ch = (unsigned char) (1 + (x >> 16) % 255);
          v[k + j] = (char) ch;
        }
        v[k + len] = 0;
        e[i] = v;
      }
      environ = e;
      fprintf(L, "{\"env_set\":[");
      for (int i = 0; i < n; i++) {
        fprintf(L, "%s\"", i ? "," : "");
        for (char *p = e[i]; *p; p++) fprintf(L, "%02x", (unsigned char) *p);
        fprintf(L, "\"");
      }
      fprintf(L, "]}\n");
    } else if (!strcmp(t, "MKDIRS") || !strcmp(t, "CHDIR")) {
      const char *hx = nexttok();
      char *p = unhex(hx ? hx : "");
      int r = 0;
      if (t[0] == 'M') {
        // relative components are created one at a time so paths beyond PATH_MAX work
        char *q = p;
        if (*q == '/') {
          if (chdir("/") < 0) r = -errno;
          q++;
        }
        char *save = NULL;
        for (char *comp = strtok_r(q, "/", &save); comp; comp = strtok_r(NULL, "/", &save)) {
          mkdir(comp, 0755);
          if (chdir(comp) < 0) {
            r = -errno;
            break;
          }
        }
      } else if (chdir(p) < 0) r = -errno;
      fprintf(L, "{\"%s\":%d}\n", t, r);
      free(p);
    } else if (!strcmp(t, "RMCWD")) {
      // enter a fresh directory and remove it: getcwd() fails with ENOENT from here on
      int r = 0;
      if (mkdir("gone", 0755) < 0 || chdir("gone") < 0 || rmdir("../gone") < 0) r = -errno;
      fprintf(L, "{\"RMCWD\":%d}\n", r);
    } else if (!strcmp(t, "CWDPAD")) {
      // CWDPAD n : create and enter nested directories until getcwd() is exactly n bytes long
      long target = nextlong(0);
      char cur[4200];
      long len = getcwd(cur, sizeof cur) ? (long) strlen(cur) : 0;
      int r = 0;
      while (len > 0 && len < target && r == 0) {
        long room = target - len - 1;  // after the slash
        if (room <= 0) break;
        long take = room > 60 ? (room - 60 == 1 ? 59 : 60) : room;
        char comp[64];
        memset(comp, 'd', (size_t) take);
        comp[take] = 0;
        mkdir(comp, 0755);
        if (chdir(comp) < 0) r = -errno;
        len += take + 1;
      }
      fprintf(L, "{\"CWDPAD\":%d,\"len\":%ld}\n", r, len);
    } else if (!strcmp(t, "MASK")) {
      const char *hx = nexttok();
      unsigned long bits = hx ? strtoul(hx, NULL, 16) : 0;
      sigset_t m;
      sigemptyset(&m);
      for (int sgn = 1; sgn < 65; sgn++)
        if (bits & (1UL << (sgn - 1))) sigaddset(&m, sgn);
      pthread_sigmask(SIG_SETMASK, &m, NULL);
    } else if (!strcmp(t, "SIGACT")) {
      int sgn = (int) nextlong(1);
      int how = (int) nextlong(0);
      struct sigaction sa;
      memset(&sa, 0, sizeof sa);
      sa.sa_handler = how == 1 ? SIG_IGN : how == 2 ? dummy_handler : SIG_DFL;
      if (sgn != SIGPIPE || how != 0) sigaction(sgn, &sa, NULL);
    } else if (!strcmp(t, "LINKVC")) {
      // LINKVC h <hex file path> <tag> : another copy of the helper whose cfg points at handle h's socket
      int h = (int) nextlong(0);
      const char *hx = nexttok();
      const char *tag = nexttok();
      char *p = unhex(hx ? hx : "");
      child_t *c = &C[h];
      if (c->lsock < 0) setup_child_dir(c, h, "");
      unlink(p);
      int r = link(g_vchild, p);
      char cfg[4300];
      char *slash = strrchr(p, '/');
      {
        if (slash) *slash = 0;
        snprintf(cfg, sizeof cfg, "%s/vc.cfg", slash ? p : ".");
        FILE *f = fopen(cfg, "w");
        if (f) {
          fprintf(f, "%s/s\n\n%s\n", c->dir, tag ? tag : "x");
          fclose(f);
        }
      }
      fprintf(L, "{\"LINKVC\":%d}\n", r < 0 ? -errno : 0);
      free(p);
    } else if (!strcmp(t, "PATHADD")) {
      const char *hx = nexttok();
      char *p = unhex(hx ? hx : "");
      char cwd[4200], np[9000];
      if (!getcwd(cwd, sizeof cwd)) cwd[0] = 0;
      const char *old = getenv("PATH");
      snprintf(np, sizeof np, "%s:%s/%s", old ? old : "/usr/bin:/bin", cwd, p);
      setenv("PATH", np, 1);
      free(p);
    } else if (!strcmp(t, "KIDS")) {
      fprintf(L, "{\"kids\":\"%s\"}\n", kids_state());
    } else if (!strcmp(t, "SNAP")) {
      fprintf(L, "{\"snap\":1,");
      jfds("fds");
      fprintf(L, "}\n");
    } else {
      fprintf(L, "{\"parse_error\":\"%s\"}\n", t);
    }
  }
}

static const char *inchild_list(void)
{
  static char b[200];
  b[0] = 0;
  for (int i = 0; i < W->inchild_n && i < 12; i++)
    snprintf(b + strlen(b), sizeof b - strlen(b), "%s%d", i ? "," : "", W->inchild_res[i]);
  return b;
}

static void finish_case(void)
{
  w_cur_op = -1;
  fprintf(L, "{\"fin\":1,\"vt\":%lld,\"hang\":%d,\"badtarget\":%d,\"foreign_close\":%d,"
             "\"double_close\":%d,\"unknown_free\":%d,\"live_allocs\":%d,\"overflow\":%u,"
             "\"inchild_done\":%d,\"ntr\":%u,\"runaway\":\"%s\",\"inchild\":[%s],",
          (long long) w_vnow, g_hang, W->n_badtarget, W->n_foreign_close, W->n_double_close,
          W->n_unknown_free, wrap_live_allocs(), W->overflow, W->inchild_done, W->ntr,
          W->runaway ? wfn_name[W->runaway - 1] : "", inchild_list());
  int fds[64];
  int n = wrap_owned_fds(fds, 64);
  fprintf(L, "\"owned_fds\":[");
  for (int i = 0; i < n; i++) fprintf(L, "%s%d", i ? "," : "", fds[i]);
  fprintf(L, "],\"faults\":[");
  for (int i = 0; i < W->nfault; i++)
    fprintf(L, "%s[%d,\"%s\",%d,%d,%d]", i ? "," : "", W->fault[i].side,
            wfn_name[W->fault[i].fn], W->fault[i].k, W->fault[i].err, W->fault[i].fired);
  fprintf(L, "],\"kids\":\"%s\",\"user_objs\":[", kids_state());
  {
    int first = 1;
    for (int h = 0; h < NH; h++)
      for (int st = 0; st < 3; st++) {
        if (C[h].used && C[h].handles[st] >= 0) {
          fprintf(L, "%s[%d,%d,\"handle\",%d]", first ? "" : ",", h, st, fcntl(C[h].handles[st], F_GETFD) >= 0);
          first = 0;
        }
        if (C[h].used && C[h].files[st]) {
          fprintf(L, "%s[%d,%d,\"file\",%d]", first ? "" : ",", h, st, fcntl(fileno(C[h].files[st]), F_GETFD) >= 0);
          first = 0;
        }
      }
    for (int st = 0; st < 3; st++) {
      fprintf(L, "%s[-1,%d,\"std\",%d]", first ? "" : ",", st, fcntl(st, F_GETFD) >= 0);
      first = 0;
    }
  }
  fprintf(L, "],");
  jgt();
  fprintf(L, ",");
  jfds("fds");
  fprintf(L, "}\n");
  fflush(L);
  // clean up whatever is still alive
  for (int h = 0; h < NH; h++) {
    child_t *c = &C[h];
    if (!c->used || c->pid <= 0) continue;
    siginfo_t si;
    si.si_pid = 0;
    if (waitid(P_PID, (id_t) c->pid, &si, WEXITED | WNOHANG | WNOWAIT) == 0)
      kill(c->pid, SIGKILL);
  }
}

static void run_case(char *script, int logfd)
{
  L = fdopen(logfd, "w");
  setvbuf(L, NULL, _IOFBF, 1 << 16);
  signal(SIGPIPE, SIG_IGN);
  wrap_reset_case();
  w_vclock = 1;
  w_ledger = 1;
  w_sched_next = sched_next;
  w_sched_run = sched_run;
  w_on_hang = on_hang;
  w_on_kill = on_kill;
  for (int h = 0; h < NH; h++) {
    memset(&C[h], 0, sizeof C[h]);
    C[h].lsock = C[h].csock = -1;
    for (int s = 0; s < 3; s++) C[h].handles[s] = -1;
  }
  ntok = 0;
  for (char *p = strtok(script, " \t\n"); p && ntok < 8192; p = strtok(NULL, " \t\n"))
    tok[ntok++] = p;
  tp = 0;
  g_opidx = -1;
  struct rlimit rl;
  getrlimit(RLIMIT_NOFILE, &rl);
  rl.rlim_cur = 256;
  setrlimit(RLIMIT_NOFILE, &rl);
  if (chdir(g_cdir) < 0) {}
  fprintf(L, "{\"snap\":0,");
  jfds("fds");
  fprintf(L, "}\n");
  run_script();
  finish_case();
  fflush(L);
}

// fd-relative recursive removal: works for trees deeper than PATH_MAX
static void rm_tree_at(int dfd, const char *name, int depth)
{
  int fd = openat(dfd, name, O_RDONLY | O_DIRECTORY | O_NOFOLLOW | O_CLOEXEC);
  if (fd < 0) {
    unlinkat(dfd, name, 0);
    return;
  }
  DIR *d = fdopendir(fd);
  if (!d) {
    close(fd);
    return;
  }
  struct dirent *e;
  while ((e = readdir(d))) {
    if (!strcmp(e->d_name, ".") || !strcmp(e->d_name, "..")) continue;
    if (e->d_type == DT_DIR && depth < 2000)
      rm_tree_at(fd, e->d_name, depth + 1);
    else if (unlinkat(fd, e->d_name, 0) < 0 && errno == EISDIR && depth < 2000)
      rm_tree_at(fd, e->d_name, depth + 1);
  }
  closedir(d);
  unlinkat(dfd, name, AT_REMOVEDIR);
}
static void rm_rf(const char *dir) { rm_tree_at(AT_FDCWD, dir, 0); }

int main(int argc, char **argv)
{
  if (argc < 3) {
    fprintf(stderr, "usage: scen <vchild> <scratch> [--one script]\n");
    return 2;
  }
  g_vchild = realpath(argv[1], NULL);
  if (!g_vchild) g_vchild = argv[1];
  g_scratch = argv[2];
  {
    struct rlimit rl;
    getrlimit(RLIMIT_NOFILE, &rl);
    g_hard_nofile = rl.rlim_max < 65536 ? rl.rlim_max : 65536;
    HIGHFD = (int) g_hard_nofile - 100;
    if (HIGHFD < 200) HIGHFD = 200;
  }
  wrap_init();
  {
    char tmp[600];
    snprintf(tmp, sizeof tmp, "%s", g_scratch);
    for (char *q = tmp + 1; *q; q++)
      if (*q == '/') {
        *q = 0;
        mkdir(tmp, 0755);
        *q = '/';
      }
    mkdir(tmp, 0755);
  }
  if (argc >= 5 && !strcmp(argv[3], "--one")) {
    snprintf(g_cdir, sizeof g_cdir, "%s/one.%d", g_scratch, (int) getpid());
    mkdir(g_cdir, 0755);
    char *s = strdup(argv[4]);
    int lfd = fcntl(1, F_DUPFD_CLOEXEC, HIGHFD);
    int nul = open("/dev/null", O_RDWR);
    dup2(nul, 0);
    dup2(nul, 1);
    if (nul > 2) close(nul);
    run_case(s, lfd);
    rm_rf(g_cdir);
    return 0;
  }
  // batch mode
  char *line = NULL;
  size_t cap = 0;
  ssize_t len;
  while ((len = getline(&line, &cap, stdin)) > 0) {
    char *sp = strchr(line, ' ');
    if (!sp) continue;
    *sp = 0;
    const char *id = line;
    char *script = sp + 1;
    snprintf(g_cdir, sizeof g_cdir, "%s/c%s", g_scratch, id);
    mkdir(g_cdir, 0755);
    char lp[700], ep[700];
    snprintf(lp, sizeof lp, "%s/log", g_cdir);
    snprintf(ep, sizeof ep, "%s/stderr", g_cdir);
    fflush(stdout);
    pid_t r = fork();
    if (r == 0) {
      setpgid(0, 0);  // the case and everything the library forks in it: one group, swept afterwards
      int lfd = open(lp, O_WRONLY | O_CREAT | O_TRUNC | O_CLOEXEC, 0644);
      lfd = move_high(lfd);
      int efd = open(ep, O_WRONLY | O_CREAT | O_TRUNC, 0644);
      int nul = open("/dev/null", O_RDWR);
      dup2(nul, 0);
      dup2(nul, 1);
      dup2(efd, 2);
      if (nul > 2) close(nul);
      if (efd > 2) close(efd);
      run_case(script, lfd);
      COV_DUMP();
      _exit(0);
    }
    if (r > 1) setpgid(r, r);
    // watchdog
    int status = 0, waited = 0;
    for (;;) {
      pid_t q = waitpid(r, &status, WNOHANG);
      if (q == r) break;
      if (q < 0 && errno != EINTR) break;
      usleep(waited < 50 ? 200 : 2000);
      if (++waited > 15000) {  // ~30 s
        kill(r, SIGKILL);
        struct rusage ru;
        memset(&ru, 0, sizeof ru);
        wait4(r, &status, 0, &ru);
        // a case that burnt CPU all that time (no library call blocks for it: waits are virtual) is
        // spinning - that is a verdict by CPU time, not by the wall clock of a loaded machine
        double cpu = (double) ru.ru_utime.tv_sec + (double) ru.ru_stime.tv_sec;
        status = cpu >= 20.0 ? -2 : -1;
        break;
      }
    }
    // a child the library forked and lost track of (stuck before exec, abandoned after a timeout)
    // shares the trace area with the next case and burns CPU: none may outlive its case
    if (r > 1) kill(-r, SIGKILL);
    printf("BEGIN %s\n", id);
    FILE *f = fopen(lp, "r");
    if (f) {
      char buf[65536];
      size_t n;
      int last = '\n';
      while ((n = fread(buf, 1, sizeof buf, f)) > 0) {
        fwrite(buf, 1, n, stdout);
        last = buf[n - 1];
      }
      fclose(f);
      if (last != '\n') putchar('\n');
    }
    f = fopen(ep, "r");
    if (f) {
      char buf[6000];
      size_t n = fread(buf, 1, sizeof buf - 1, f);
      fclose(f);
      if (n > 0) {
        printf("STDERR ");
        for (size_t i = 0; i < n; i++) {
          unsigned char ch = (unsigned char) buf[i];
          if (ch == '\n') fputs("\\n", stdout);
          else if (ch >= 32 && ch < 127 && ch != '\\') putchar(ch);
          else putchar('?');
        }
        putchar('\n');
      }
    }
    if (status == -2) {
      printf("END %s spin\n", id);
      if (++g_watchdogs >= 4) {
        printf("ABORT watchdog-limit\n");
        fflush(stdout);
        rm_rf(g_cdir);
        break;
      }
    } else if (status == -1) {
      printf("END %s watchdog\n", id);
      if (++g_watchdogs >= 4) {
        // something is systematically stuck in real time: do not burn 30 s per remaining case
        printf("ABORT watchdog-limit\n");
        fflush(stdout);
        rm_rf(g_cdir);
        break;
      }
    }
    else if (WIFSIGNALED(status)) printf("END %s signal %d\n", id, WTERMSIG(status));
    else printf("END %s exit %d\n", id, WEXITSTATUS(status));
    fflush(stdout);
    rm_rf(g_cdir);
  }
  return 0;
}
