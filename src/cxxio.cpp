// C16, C++ pass: reproc::drain / reproc::run (templates in drain.hpp / run.hpp) against the REAL
// library and free-running helper children (real time, no timing assertions except "a deadline
// yields timed_out"). The helper writes position-coded bytes to stdout/stderr in random chunks.
//
// usage: cxxio <vchild> <scratch> <worker> <nworkers> <tier> <seed>
#include <signal.h>
#include <sys/stat.h>
#include <unistd.h>

#include <cstdint>
#include <cstdio>
#include <cstdlib>
#include <cstring>
#include <atomic>
#include <mutex>
#include <thread>
#include <sched.h>
#include <time.h>
#include <sstream>
#include <string>
#include <system_error>
#include <vector>

#include <reproc++/drain.hpp>
#include <reproc++/reproc.hpp>
#include <reproc++/run.hpp>

extern "C" {
#include "common.h"
void wrap_init(void);
void wrap_reset_case(void);
}

static long st_cases, st_viol, st_calls, st_bytes, st_runs, st_stops, st_strings, st_timeouts, st_locked_looks, st_run_stops;

static void viol(const char *cls, long idx, const std::string &msg)
{
  st_viol++;
  printf("V\t%s\tcase=%ld\t%s\n", cls, idx, msg.c_str());
}

struct Call {
  int sink;  // 0 out sink, 1 err sink
  int tag;
  size_t size;
  long bad;
};

struct Recorder {
  std::vector<Call> calls;
  uint64_t off[3] = { 0, 0, 0 };
  int fail_at = -1;  // global call index at which to return an error
  std::error_code fail_ec;
  std::error_code operator()(int sink, reproc::stream s, const uint8_t *buf, size_t size)
  {
    int tag = static_cast<int>(s);
    long bad = -1;
    if (tag == 1 || tag == 2) {
      for (size_t i = 0; i < size; i++)
        if (buf[i] != poscode(static_cast<unsigned>(tag), off[tag] + i) && bad < 0) bad = static_cast<long>(off[tag] + i);
      off[tag] += size;
    }
    calls.push_back({ sink, tag, size, bad });
    if (static_cast<int>(calls.size()) - 1 == fail_at) return fail_ec;
    return {};
  }
};

static std::string g_vchild, g_scratch;

static std::string setup_child(long idx, long nout, long nerr, int echo, int code, unsigned seed, const char *extra = "")
{
  std::string dir = g_scratch + "/x" + std::to_string(idx);
  mkdir(dir.c_str(), 0755);
  std::string prog = dir + "/vc";
  unlink(prog.c_str());
  if (link(g_vchild.c_str(), prog.c_str()) < 0) {
    perror("link");
    exit(95);
  }
  FILE *f = fopen((dir + "/vc.cfg").c_str(), "w");
  // no control socket: the helper exits 114 if it cannot connect, so give it a dead-end path it
  // is allowed to fail on? No - the free-running mode needs the hello. Use "nosock" mode instead.
  fprintf(f, "-\nnosock free:out=%ld err=%ld echo=%d exit=%d seed=%u%s\nx%ld\n", nout, nerr, echo, code, seed, extra, idx);
  fclose(f);
  return prog;
}

static void check_protocol(long idx, const Recorder &r, bool out_piped, bool err_piped, long nout, long nerr, bool complete)
{
  const auto &c = r.calls;
  st_calls += static_cast<long>(c.size());
  if (c.size() < 1 || c[0].sink != 0 || c[0].tag != 0 || c[0].size != 0) viol("initial-calls-wrong", idx, "first call is not (out sink, stream::in, 0)");
  if (r.fail_at != 0 && (c.size() < 2 || c[1].sink != 1 || c[1].tag != 0 || c[1].size != 0))
    viol("initial-calls-wrong", idx, "second call is not (err sink, stream::in, 0)");
  int closes[3] = { 0, 0, 0 };
  long got[3] = { 0, 0, 0 };
  for (size_t i = 2; i < c.size(); i++) {
    if (c[i].tag != 1 && c[i].tag != 2) {
      viol("bad-tag", idx, "data call tagged " + std::to_string(c[i].tag));
      continue;
    }
    if (c[i].sink != c[i].tag - 1) viol("chunk-to-wrong-sink", idx, "chunk tagged " + std::to_string(c[i].tag) + " went to sink " + std::to_string(c[i].sink));
    if (c[i].bad >= 0) viol("chunk-corrupt", idx, "stream " + std::to_string(c[i].tag) + " differs at offset " + std::to_string(c[i].bad));
    if (closes[c[i].tag]) viol("call-after-close", idx, "sink of stream " + std::to_string(c[i].tag) + " called after its closing call");
    if (c[i].size == 0) closes[c[i].tag]++;
    got[c[i].tag] += static_cast<long>(c[i].size);
  }
  st_bytes += got[1] + got[2];
  if (r.fail_at >= 0 && static_cast<int>(c.size()) > r.fail_at + 1) viol("calls-after-sink-failure", idx, "sink called again after a sink returned an error");
  if (complete) {
    if (out_piped && (closes[1] != 1 || got[1] != nout)) viol("stream-incomplete", idx, "stdout: " + std::to_string(got[1]) + " of " + std::to_string(nout) + " bytes, " + std::to_string(closes[1]) + " closing calls");
    if (err_piped && (closes[2] != 1 || got[2] != nerr)) viol("stream-incomplete", idx, "stderr: " + std::to_string(got[2]) + " of " + std::to_string(nerr) + " bytes, " + std::to_string(closes[2]) + " closing calls");
    if (!err_piped && (closes[2] || got[2])) viol("calls-for-unpiped-stream", idx, "stderr is not piped but its sink got data/closing calls");
  }
}

static uint64_t rs;
static uint64_t rnd()
{
  rs ^= rs << 13;
  rs ^= rs >> 7;
  rs ^= rs << 17;
  return rs;
}

static long g_cur_case = -1;
static void on_alarm(int)
{
  // a case stuck in real time: inconclusive for this pass (exit 3), the limit is generous
  char m[96];
  int n = snprintf(m, sizeof m, "W\twatchdog\tcase=%ld did not finish within 90 s\n", g_cur_case);
  if (write(1, m, static_cast<size_t>(n)) < 0) {}
  _exit(3);
}

static void one_case(long idx)
{
  st_cases++;
  g_cur_case = idx;
  alarm(90);
  wrap_reset_case();  // the interposition layer keeps a bounded table of children per case
  long nout = static_cast<long>(rnd() % 5 == 0 ? rnd() % 300000 : rnd() % 9000);
  long nerr = static_cast<long>(rnd() % 4 == 0 ? 0 : rnd() % 6000);
  int code = static_cast<int>(rnd() % 256);
  int kind = static_cast<int>(idx % 7);
  bool err_piped = rnd() % 3 != 0;
  std::string prog = setup_child(idx, nout, nerr, kind == 4 ? 1 : 0, code, static_cast<unsigned>(rnd()), kind == 6 ? " closefirst=1 life=12000" : "");
  std::vector<std::string> args{ prog };
  reproc::options o;
  o.redirect.err.type = err_piped ? reproc::redirect::pipe : reproc::redirect::discard;
  o.stop = { { reproc::stop::wait, reproc::milliseconds(20000) }, { reproc::stop::kill, reproc::milliseconds(5000) }, {} };
  Recorder rec;
  auto outsink = [&](reproc::stream s, const uint8_t *b, size_t n) { return rec(0, s, b, n); };
  auto errsink = [&](reproc::stream s, const uint8_t *b, size_t n) { return rec(1, s, b, n); };
  if (kind == 0 || kind == 1) {
    // plain drain with recording lambdas; kind 1: a sink fails at call k
    if (kind == 1) {
      rec.fail_at = static_cast<int>(rnd() % 6);
      // also the codes the wrapper itself gives a meaning to (a closed stream, a deadline, "try again")
      static const std::errc codes[] = { std::errc::interrupted, std::errc::no_space_on_device, std::errc::broken_pipe, std::errc::broken_pipe,
                                         std::errc::timed_out, std::errc::resource_unavailable_try_again, std::errc::operation_in_progress };
      rec.fail_ec = std::make_error_code(codes[rnd() % 7]);
    }
    reproc::process p;
    std::error_code ec = p.start(args, o);
    if (ec) {
      viol("start-failed", idx, ec.message());
      return;
    }
    ec = reproc::drain(p, outsink, errsink);
    if (kind == 1 && static_cast<int>(rec.calls.size()) > rec.fail_at) {
      if (ec != rec.fail_ec) viol("sink-result-not-returned", idx, "drain returned '" + ec.message() + "' instead of the sink's error");
      check_protocol(idx, rec, true, err_piped, nout, nerr, false);
      // nobody reads any more: let the child run into EPIPE instead of blocking in write()
      p.close(reproc::stream::out);
      p.close(reproc::stream::err);
    } else {
      if (ec) viol("drain-unexpected-error", idx, ec.message());
      check_protocol(idx, rec, true, err_piped, nout, nerr, !ec);
    }
    auto st = p.stop(o.stop);
    st_stops++;
    if (st.second || st.first != code) viol("status-wrong", idx, "stop returned " + std::to_string(st.first) + " (" + st.second.message() + "), child exits with " + std::to_string(code));
  } else if (kind == 2) {
    // reproc::run with sinks
    auto res = reproc::run(args, o, outsink, errsink);
    st_runs++;
    if (res.second || res.first != code) viol("run-status-wrong", idx, "run returned " + std::to_string(res.first) + " (" + res.second.message() + "), child exits with " + std::to_string(code));
    check_protocol(idx, rec, true, err_piped, nout, nerr, true);
  } else if (kind == 6) {
    // the child closes both streams itself and lives on for 12 s: run() must stop it by the policy given in the
    // options (terminate, then kill) and return that ending - not wait for the child's own end
    o.stop = { { reproc::stop::terminate, reproc::milliseconds(10000) }, { reproc::stop::kill, reproc::milliseconds(10000) }, {} };
    auto res = reproc::run(args, o, outsink, errsink);
    st_runs++;
    st_run_stops++;
    if (res.second || res.first != 128 + SIGTERM)
      viol("run-does-not-stop-child", idx, "run returned " + std::to_string(res.first) + " (" + res.second.message() + "); the child outlives its output and the stop policy is terminate/kill, so the status must be " + std::to_string(128 + SIGTERM));
    check_protocol(idx, rec, true, err_piped, nout, nerr, true);
  } else if (kind == 3) {
    // string sinks: exact accumulation, also when non-empty before
    std::string so = rnd() % 2 ? "prefix-" : "", se;
    std::string pre = so;
    std::mutex mu;
    reproc::process p;
    if (p.start(args, o)) return;
    std::error_code ec;
    if (rnd() % 2) {
      ec = reproc::drain(p, reproc::sink::string(so), reproc::sink::string(se));
    } else {
      // another thread takes the mutex again and again and looks at the strings while it has it: they must
      // not change under its eyes ("locks the given mutex before appending")
      std::atomic<bool> stop_mon(false);
      std::atomic<long> changed(0), looks(0);
      std::thread mon([&]() {
        while (!stop_mon.load()) {
          {
            std::lock_guard<std::mutex> lk(mu);
            size_t a = so.size(), b = se.size();
            struct timespec ts = { 0, 300000 };
            nanosleep(&ts, nullptr);
            if (so.size() != a || se.size() != b) changed++;
            looks++;
          }
          sched_yield();
        }
      });
      ec = reproc::drain(p, reproc::sink::thread_safe::string(so, mu), reproc::sink::thread_safe::string(se, mu));
      stop_mon.store(true);
      mon.join();
      st_locked_looks += looks.load();
      if (changed.load())
        viol("thread-safe-sink-appends-while-mutex-held", idx, "the string changed " + std::to_string(changed.load()) + " times while another thread held the mutex given to sink::thread_safe::string");
    }
    st_strings++;
    if (ec) viol("drain-unexpected-error", idx, ec.message());
    bool ok = so.size() == pre.size() + static_cast<size_t>(nout) && so.compare(0, pre.size(), pre) == 0;
    for (long i = 0; ok && i < nout; i++)
      if (static_cast<uint8_t>(so[pre.size() + static_cast<size_t>(i)]) != poscode(1, static_cast<uint64_t>(i))) ok = false;
    if (!ok) viol("string-sink-content", idx, "stdout string has " + std::to_string(so.size()) + " bytes, expected prefix + " + std::to_string(nout));
    bool oke = se.size() == static_cast<size_t>(err_piped ? nerr : 0);
    for (long i = 0; oke && err_piped && i < nerr; i++)
      if (static_cast<uint8_t>(se[static_cast<size_t>(i)]) != poscode(2, static_cast<uint64_t>(i))) oke = false;
    if (!oke) viol("string-sink-content", idx, "stderr string has " + std::to_string(se.size()) + " bytes, expected " + std::to_string(err_piped ? nerr : 0));
    p.stop(o.stop);
  } else if (kind == 4) {
    // deadline while the child keeps its streams open (it waits for EOF on stdin that never comes)
    o.deadline = reproc::milliseconds(60);
    o.stop = { { reproc::stop::kill, reproc::milliseconds(5000) }, {}, {} };
    reproc::process p;
    if (p.start(args, o)) return;
    std::error_code ec = reproc::drain(p, outsink, errsink);
    st_timeouts++;
    if (ec != std::errc::timed_out) viol("deadline-not-reported", idx, "drain returned '" + ec.message() + "' although the deadline expired with streams open");
    check_protocol(idx, rec, true, err_piped, nout, nerr, false);
    p.stop(o.stop);
  } else {
    // ostream sink + discard sink, then run() overload without sinks
    std::ostringstream os;
    reproc::process p;
    if (p.start(args, o)) return;
    std::error_code ec = reproc::drain(p, reproc::sink::ostream(os), reproc::sink::null);
    if (ec) viol("drain-unexpected-error", idx, ec.message());
    std::string s = os.str();
    bool ok = s.size() == static_cast<size_t>(nout);
    for (long i = 0; ok && i < nout; i++)
      if (static_cast<uint8_t>(s[static_cast<size_t>(i)]) != poscode(1, static_cast<uint64_t>(i))) ok = false;
    if (!ok) viol("ostream-sink-content", idx, "ostream got " + std::to_string(s.size()) + " bytes, expected " + std::to_string(nout));
    p.stop(o.stop);
    reproc::options o2;
    o2.redirect.discard = true;
    o2.stop = o.stop;
    auto res = reproc::run(args, o2);
    st_runs++;
    if (res.second || res.first != code) viol("run-status-wrong", idx, "run(args, options) returned " + std::to_string(res.first) + ", child exits with " + std::to_string(code));
  }
  alarm(0);
  std::string cmd = "rm -rf '" + g_scratch + "/x" + std::to_string(idx) + "'";
  if (system(cmd.c_str()) != 0) {}
}

int main(int argc, char **argv)
{
  if (argc < 7) return 2;
  wrap_init();
  wrap_reset_case();
  signal(SIGALRM, on_alarm);
  char *rp = realpath(argv[1], nullptr);
  g_vchild = rp ? rp : argv[1];
  g_scratch = argv[2];
  mkdir(g_scratch.c_str(), 0755);
  long w = atol(argv[3]), nw = atol(argv[4]);
  bool thorough = !strcmp(argv[5], "thorough");
  rs = static_cast<uint64_t>(atol(argv[6])) * 0x9E3779B97F4A7C15ULL + static_cast<uint64_t>(w) * 7919 + 3;
  long n = (thorough ? 6000 : 480) / nw;
  for (long i = 0; i < n; i++) one_case(i * nw + w);
  printf("S\t%ld\t%ld\t%ld\t%ld\t%ld\t%ld\t%ld\t%ld\t%ld\t%ld\n", st_cases, st_viol, st_calls, st_bytes, st_runs, st_stops, st_strings, st_timeouts, st_locked_looks, st_run_stops);
  return st_viol ? 1 : 0;
}
