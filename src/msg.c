#define _GNU_SOURCE
#include "common.h"
#include <errno.h>
#include <stdlib.h>
#include <string.h>
#include <unistd.h>
#include <sys/socket.h>

static int full_write(int fd, const void *buf, size_t n)
{
  const char *p = buf;
  while (n > 0) {
    ssize_t r = send(fd, p, n, MSG_NOSIGNAL);
    if (r < 0) {
      if (errno == EINTR) continue;
      return -1;
    }
    p += r;
    n -= (size_t) r;
  }
  return 0;
}

static int full_read(int fd, void *buf, size_t n)
{
  char *p = buf;
  while (n > 0) {
    ssize_t r = recv(fd, p, n, 0);
    if (r < 0) {
      if (errno == EINTR) continue;
      return -1;
    }
    if (r == 0) return -1;
    p += r;
    n -= (size_t) r;
  }
  return 0;
}

int msg_send(int fd, const void *buf, uint32_t n)
{
  uint32_t len = n;
  if (full_write(fd, &len, 4) < 0) return -1;
  return full_write(fd, buf, n);
}

char *msg_recv(int fd, uint32_t *n)
{
  uint32_t len = 0;
  if (full_read(fd, &len, 4) < 0) return NULL;
  if (len > (1u << 28)) return NULL;
  char *b = malloc((size_t) len + 1);
  if (!b) return NULL;
  if (full_read(fd, b, len) < 0) {
    free(b);
    return NULL;
  }
  b[len] = 0;
  if (n) *n = len;
  return b;
}
