// C++ half of the examples pass: reproc++/examples/*.cpp are compiled with -Dmain=example_main_cxx;
// this gives src/exdrv.c (C) the entry point it expects.
int example_main_cxx(int argc, const char **argv);

extern "C" int example_main(int argc, const char **argv)
{
  return example_main_cxx(argc, argv);
}
