// Engine 'cxx' (C19): reproc++ (reproc.cpp + headers from the tree) linked against a FAKE C API
// that records what it receives and returns scripted values. The real C library is linked too,
// with its API functions renamed to real_reproc_* (-D at compile time), so the C constants
// compared here are the real ones.
//
// usage: cxx <worker> <nworkers> <tier> <seed>
#include <climits>
#include <cstdint>
#include <cstdio>
#include <cstdlib>
#include <cstring>
#include <map>
#include <string>
#include <system_error>
#include <utility>
#include <vector>

#include <reproc/reproc.h>
#include <reproc++/reproc.hpp>
#include <reproc++/run.hpp>

// ---------------------------------------------------------------- fake C API
namespace {

struct Captured {
  int calls = 0;
  reproc_t *process = nullptr;
  bool argv_null = false;
  std::vector<std::string> argv;
  reproc_options o{};
  bool extra_null = false;
  std::vector<std::string> extra;
  std::string wd;
  bool wd_null = true;
};

Captured g_start;
int g_ret = 0;               // scripted return value for the next C call
std::map<std::string, int> g_script;  // per-function override (used for the multi-call run() overloads)
std::vector<std::string> g_calls;     // names of the C functions called, in order
static int ret_for(const char *fn)
{
  g_calls.emplace_back(fn);
  auto it = g_script.find(fn);
  return it == g_script.end() ? g_ret : it->second;
}
long g_new = 0, g_destroy = 0;
struct LastCall {
  const char *fn = "";
  reproc_t *p = nullptr;
  long a = 0, b = 0, c = 0;
  const void *ptr = nullptr;
  reproc_stop_actions stop{};
  std::vector<reproc_event_source> sources;
} g_last;
std::vector<int> g_poll_events;  // events the fake poll writes back

}  // namespace

extern "C" {

struct reproc_t {
  int tag;
};

reproc_t *reproc_new(void)
{
  g_new++;
  reproc_t *p = static_cast<reproc_t *>(malloc(sizeof(reproc_t)));
  p->tag = 0x5eed;
  return p;
}

reproc_t *reproc_destroy(reproc_t *process)
{
  if (process) {
    g_destroy++;
    if (process->tag != 0x5eed) {
      printf("V\tdestroy-of-garbage\t-\tdestroy called with a pointer reproc_new did not return or twice\n");
    }
    process->tag = 0;
    free(process);
  }
  return nullptr;
}

int reproc_start(reproc_t *process, const char *const *argv, reproc_options options)
{
  Captured c;
  c.calls = g_start.calls + 1;
  c.process = process;
  c.argv_null = argv == nullptr;
  for (int i = 0; argv && argv[i]; i++) c.argv.emplace_back(argv[i]);
  c.o = options;
  c.extra_null = options.env.extra == nullptr;
  for (int i = 0; options.env.extra && options.env.extra[i]; i++) c.extra.emplace_back(options.env.extra[i]);
  c.wd_null = options.working_directory == nullptr;
  if (options.working_directory) c.wd = options.working_directory;
  g_start = c;
  return ret_for("start");
}

int reproc_pid(reproc_t *process) { g_last = LastCall(); g_last.fn = "pid"; g_last.p = process; return ret_for("pid"); }

int reproc_poll(reproc_event_source *sources, size_t num_sources, int timeout)
{
  g_last = LastCall();
  g_last.fn = "poll";
  g_last.a = static_cast<long>(num_sources);
  g_last.b = timeout;
  for (size_t i = 0; i < num_sources; i++) {
    g_last.sources.push_back(sources[i]);
    if (i < g_poll_events.size()) sources[i].events = g_poll_events[i];
  }
  return ret_for("poll");
}

int reproc_read(reproc_t *process, REPROC_STREAM stream, uint8_t *buffer, size_t size)
{
  g_last = LastCall();
  g_last.fn = "read"; g_last.p = process; g_last.a = stream; g_last.ptr = buffer; g_last.b = static_cast<long>(size);
  return ret_for("read");
}

int reproc_write(reproc_t *process, const uint8_t *buffer, size_t size)
{
  g_last = LastCall();
  g_last.fn = "write"; g_last.p = process; g_last.ptr = buffer; g_last.b = static_cast<long>(size);
  return ret_for("write");
}

int reproc_close(reproc_t *process, REPROC_STREAM stream)
{
  g_last = LastCall();
  g_last.fn = "close"; g_last.p = process; g_last.a = stream;
  return ret_for("close");
}

int reproc_wait(reproc_t *process, int timeout)
{
  g_last = LastCall();
  g_last.fn = "wait"; g_last.p = process; g_last.a = timeout;
  return ret_for("wait");
}

int reproc_terminate(reproc_t *process) { g_last = LastCall(); g_last.fn = "terminate"; g_last.p = process; return ret_for("terminate"); }
int reproc_kill(reproc_t *process) { g_last = LastCall(); g_last.fn = "kill"; g_last.p = process; return ret_for("kill"); }

int reproc_stop(reproc_t *process, reproc_stop_actions stop)
{
  g_last = LastCall();
  g_last.fn = "stop"; g_last.p = process; g_last.stop = stop;
  return ret_for("stop");
}

const char *reproc_strerror(int error) { (void) error; return "fake"; }

}  // extern "C"

// ---------------------------------------------------------------- checks
static long st_cases, st_viol, st_fields, st_methods, st_containers, st_clones, st_consts, st_onehot;
static uint64_t rs;
static uint64_t rnd()
{
  rs ^= rs << 13;
  rs ^= rs >> 7;
  rs ^= rs << 17;
  return rs;
}
static int rint(int lo, int hi)
{
  uint64_t span = static_cast<uint64_t>(static_cast<int64_t>(hi) - static_cast<int64_t>(lo) + 1);
  return static_cast<int>(static_cast<int64_t>(lo) + static_cast<int64_t>(rnd() % span));
}

// timeouts: the values with a meaning of their own (until-deadline, infinite, zero, one, the largest) half of the time
static int tmo(int hi)
{
  static const int EDGE[] = { -2, -1, 0, 1, INT_MAX };
  if (rnd() % 2) {
    int v = EDGE[rnd() % 5];
    return v;
  }
  return rint(0, hi);
}

static void viol(const char *cls, const std::string &what, const std::string &msg)
{
  st_viol++;
  printf("V\t%s\t%s\t%s\n", cls, what.c_str(), msg.c_str());
}

#define CHECK_FIELD(name, got, want)                                                                 \
  do {                                                                                               \
    st_fields++;                                                                                     \
    if (!((got) == (want))) {                                                                        \
      char b_[200];                                                                                  \
      snprintf(b_, sizeof b_, "C field %s = %lld, C++ value %lld (%s)", name, (long long) (got),      \
               (long long) (want), ctx.c_str());                                                     \
      viol("field-not-mapped", name, b_);                                                            \
    }                                                                                                \
  } while (0)

static std::string rand_bytes(int maxlen)
{
  int n = rint(0, maxlen);
  std::string s;
  for (int i = 0; i < n; i++) s.push_back(static_cast<char>(rint(1, 255)));
  return s;
}

static reproc::redirect rand_redirect(int which, bool set)
{
  reproc::redirect r{};
  if (!set) return r;
  r.type = static_cast<enum reproc::redirect::type>(rint(0, 7));
  r.handle = rint(3, 9000) + which;
  r.file = reinterpret_cast<FILE *>(static_cast<uintptr_t>(0x1000 + 16 * rint(1, 1000) + which));
  r.path = which == 0 ? "in-path" : which == 1 ? "out-path" : "err-path";
  return r;
}

static void compare_redirect(const char *name, const reproc_redirect &c, const reproc::redirect &x, const std::string &ctx)
{
  std::string n(name);
  CHECK_FIELD((n + ".type").c_str(), static_cast<int>(c.type), static_cast<int>(x.type));
  CHECK_FIELD((n + ".handle").c_str(), c.handle, x.handle);
  CHECK_FIELD((n + ".file").c_str(), reinterpret_cast<uintptr_t>(c.file), reinterpret_cast<uintptr_t>(x.file));
  CHECK_FIELD((n + ".path").c_str(), reinterpret_cast<uintptr_t>(c.path), reinterpret_cast<uintptr_t>(x.path));
}

// field index for one-hot cases (-1: everything random)
enum { F_WD, F_ENVB, F_ENVX, F_RIN, F_ROUT, F_RERR, F_PARENT, F_DISCARD, F_FILE, F_PATH, F_STOP, F_DEADLINE, F_INPUT, F_NB, F_COUNT };

static void fill_options(reproc::options &o, int only, std::vector<std::pair<std::string, std::string>> &envstore,
                         std::vector<uint8_t> &inputstore)
{
  auto on = [&](int f) { return only < 0 ? (rnd() % 2 == 0) : only == f; };
  static const char *wds[] = { "/", "/tmp", "relative/dir", "" };
  if (on(F_WD)) o.working_directory = wds[rnd() % 4];
  if (on(F_ENVB)) o.env.behavior = reproc::env::empty;
  if (on(F_ENVX)) {
    int n = rint(0, only >= 0 ? 100 : 6);
    for (int i = 0; i < n; i++) envstore.emplace_back("N" + std::to_string(i) + rand_bytes(3), rand_bytes(12));
    o.env.extra = envstore;
  }
  o.redirect.in = rand_redirect(0, on(F_RIN));
  o.redirect.out = rand_redirect(1, on(F_ROUT));
  o.redirect.err = rand_redirect(2, on(F_RERR));
  if (on(F_PARENT)) o.redirect.parent = true;
  if (on(F_DISCARD)) o.redirect.discard = true;
  if (on(F_FILE)) o.redirect.file = reinterpret_cast<FILE *>(static_cast<uintptr_t>(0x7770));
  if (on(F_PATH)) o.redirect.path = "short-path";
  if (on(F_STOP)) {
    o.stop.first = { static_cast<reproc::stop>(rint(0, 3)), reproc::milliseconds(tmo(100000)) };
    o.stop.second = { static_cast<reproc::stop>(rint(0, 3)), reproc::milliseconds(rint(-2, INT_MAX)) };
    o.stop.third = { static_cast<reproc::stop>(rint(0, 3)), reproc::milliseconds(rnd() % 2 ? tmo(7) : rint(1, 7)) };
  }
  if (on(F_DEADLINE)) o.deadline = reproc::milliseconds(rnd() % 3 == 0 ? INT_MAX : rint(1, 1000000));
  if (on(F_INPUT)) {
    // a non-null pointer with size 0 is a meaningful value ("empty input: close stdin at once")
    inputstore.resize(64);
    size_t n = rnd() % 4 == 0 ? 0 : static_cast<size_t>(rint(1, 50));
    o.input = reproc::input(inputstore.data(), n);
  }
  if (on(F_NB)) o.nonblocking = true;
  o.timeout = reproc::milliseconds(rint(0, 50));
}

static void compare_options(const reproc_options &c, const reproc::options &x, const std::string &ctx,
                            const std::vector<std::pair<std::string, std::string>> &envstore)
{
  st_fields++;
  bool wdok = (x.working_directory == nullptr) ? g_start.wd_null : (!g_start.wd_null && g_start.wd == x.working_directory);
  if (!wdok) viol("field-not-mapped", "working_directory", "working directory differs (" + ctx + ")");
  CHECK_FIELD("env.behavior", static_cast<int>(c.env.behavior), static_cast<int>(x.env.behavior));
  // env.extra: exact NULL-terminated NAME=VALUE array
  st_containers++;
  if (x.env.extra.data() == nullptr) {
    if (!g_start.extra_null) viol("container-conversion", "env.extra", "extra env is not NULL for an unset env (" + ctx + ")");
  } else {
    bool same = g_start.extra.size() == envstore.size();
    for (size_t i = 0; same && i < envstore.size(); i++)
      if (g_start.extra[i] != envstore[i].first + "=" + envstore[i].second) same = false;
    if (!same) viol("container-conversion", "env.extra", "extra env array differs from the NAME=VALUE list (" + ctx + ")");
  }
  compare_redirect("redirect.in", c.redirect.in, x.redirect.in, ctx);
  compare_redirect("redirect.out", c.redirect.out, x.redirect.out, ctx);
  compare_redirect("redirect.err", c.redirect.err, x.redirect.err, ctx);
  CHECK_FIELD("redirect.parent", c.redirect.parent, x.redirect.parent);
  CHECK_FIELD("redirect.discard", c.redirect.discard, x.redirect.discard);
  CHECK_FIELD("redirect.file", reinterpret_cast<uintptr_t>(c.redirect.file), reinterpret_cast<uintptr_t>(x.redirect.file));
  CHECK_FIELD("redirect.path", reinterpret_cast<uintptr_t>(c.redirect.path), reinterpret_cast<uintptr_t>(x.redirect.path));
  CHECK_FIELD("stop.first.action", static_cast<int>(c.stop.first.action), static_cast<int>(x.stop.first.action));
  CHECK_FIELD("stop.first.timeout", c.stop.first.timeout, x.stop.first.timeout.count());
  CHECK_FIELD("stop.second.action", static_cast<int>(c.stop.second.action), static_cast<int>(x.stop.second.action));
  CHECK_FIELD("stop.second.timeout", c.stop.second.timeout, x.stop.second.timeout.count());
  CHECK_FIELD("stop.third.action", static_cast<int>(c.stop.third.action), static_cast<int>(x.stop.third.action));
  CHECK_FIELD("stop.third.timeout", c.stop.third.timeout, x.stop.third.timeout.count());
  CHECK_FIELD("deadline", c.deadline, x.deadline.count());
  CHECK_FIELD("input.data", reinterpret_cast<uintptr_t>(c.input.data), reinterpret_cast<uintptr_t>(x.input.data()));
  CHECK_FIELD("input.size", c.input.size, x.input.size());
  CHECK_FIELD("nonblocking", c.nonblocking, x.nonblocking);
}

static void check_clone(const reproc::options &o, const std::string &ctx)
{
  st_clones++;
  reproc::options c = reproc::options::clone(o);
#define CL(name, a, b)                                                                              \
  do {                                                                                              \
    st_fields++;                                                                                    \
    if (!((a) == (b))) viol("clone-drops-field", name, std::string("options::clone does not preserve ") + name + " (" + ctx + ")"); \
  } while (0)
  CL("env.behavior", c.env.behavior, o.env.behavior);
  CL("env.extra", c.env.extra.data(), o.env.extra.data());
  CL("working_directory", c.working_directory, o.working_directory);
  CL("redirect.in.type", c.redirect.in.type, o.redirect.in.type);
  CL("redirect.in.handle", c.redirect.in.handle, o.redirect.in.handle);
  CL("redirect.in.file", c.redirect.in.file, o.redirect.in.file);
  CL("redirect.in.path", c.redirect.in.path, o.redirect.in.path);
  CL("redirect.out.type", c.redirect.out.type, o.redirect.out.type);
  CL("redirect.out.handle", c.redirect.out.handle, o.redirect.out.handle);
  CL("redirect.err.type", c.redirect.err.type, o.redirect.err.type);
  CL("redirect.err.path", c.redirect.err.path, o.redirect.err.path);
  CL("redirect.parent", c.redirect.parent, o.redirect.parent);
  CL("redirect.discard", c.redirect.discard, o.redirect.discard);
  CL("redirect.file", c.redirect.file, o.redirect.file);
  CL("redirect.path", c.redirect.path, o.redirect.path);
  CL("stop.first.action", c.stop.first.action, o.stop.first.action);
  CL("stop.first.timeout", c.stop.first.timeout, o.stop.first.timeout);
  CL("stop.second.action", c.stop.second.action, o.stop.second.action);
  CL("stop.third.timeout", c.stop.third.timeout, o.stop.third.timeout);
  CL("timeout", c.timeout, o.timeout);
  CL("deadline", c.deadline, o.deadline);
  CL("input.data", c.input.data(), o.input.data());
  CL("input.size", c.input.size(), o.input.size());
  CL("nonblocking", c.nonblocking, o.nonblocking);
}

// reproc::run(arguments, options): like C reproc_run - the streams default to the parent's unless a
// discard/file/path shorthand is given; everything else reaches reproc_start unchanged; the result is
// that of the stop step (or the first error).
static long st_runs;
static bool ec_matches(const std::error_code &ec, int r);
static void method_viol(const char *m, int r, const std::string &what);
static void check_run(const reproc::options &o, const std::vector<std::string> &args, const std::string &ctx,
                      const std::vector<std::pair<std::string, std::string>> &envstore)
{
  st_runs++;
  int start_r = rnd() % 6 == 0 ? -static_cast<int>(1 + rnd() % 40) : 1 + static_cast<int>(rnd() % 30000);
  int stop_r = rnd() % 5 == 0 ? -static_cast<int>(1 + rnd() % 120) : static_cast<int>(rnd() % 256);
  g_script = { { "start", start_r }, { "poll", REPROC_EPIPE }, { "stop", stop_r } };
  g_calls.clear();
  long destroys = g_destroy, news = g_new;
  std::pair<int, std::error_code> res = reproc::run(args, o);
  g_script.clear();
  std::string c2 = ctx + " via run()";
  if (g_start.argv_null || g_start.argv != args) viol("container-conversion", "run-arguments", "argv array differs from the container (" + c2 + ")");
  reproc::options want = reproc::options::clone(o);
  if (!o.redirect.discard && o.redirect.file == nullptr && o.redirect.path == nullptr) want.redirect.parent = true;
  compare_options(g_start.o, want, c2, envstore);
  st_fields++;
  if (g_start.o.fork) viol("field-not-mapped", "run-fork", "run() sets the C fork option (" + c2 + ")");
  if (start_r < 0) {
    if (res.first != -1 || !ec_matches(res.second, start_r)) method_viol("run", start_r, "start error not returned by run()");
    if (g_calls.size() != 1 || g_calls[0] != "start") viol("method-result", "run", "run() went on after a failed start (" + c2 + ")");
  } else {
    if (res.first != stop_r || !ec_matches(res.second, stop_r)) method_viol("run", stop_r, "stop result not returned by run()");
    if (g_calls.empty() || g_calls.back() != "stop") viol("method-result", "run", "run() did not end with the stop step (" + c2 + ")");
    bool same = static_cast<int>(g_last.stop.first.action) == static_cast<int>(o.stop.first.action) &&
                g_last.stop.first.timeout == o.stop.first.timeout.count() &&
                static_cast<int>(g_last.stop.third.action) == static_cast<int>(o.stop.third.action) &&
                g_last.stop.third.timeout == o.stop.third.timeout.count();
    if (!same) viol("field-not-mapped", "run-stop", "run() does not stop with options.stop (" + c2 + ")");
  }
  if (g_destroy - destroys != g_new - news) viol("destroy-count", "run", "run() leaks or double-destroys its process (" + c2 + ")");
}

static const int RETS[] = { 0, 1, 2, 137, 143, 255, 4096, INT_MAX, -1, -2, -4, -9, -11, -12, -22, -32, -110 };

static bool ec_matches(const std::error_code &ec, int r)
{
  if (r >= 0) return !ec;
  if (!ec) return false;
  if (ec.value() != -r) return false;
  // equivalence with the named errors
  if (r == REPROC_EINVAL && ec != std::errc::invalid_argument) return false;
  if (r == REPROC_EPIPE && ec != std::errc::broken_pipe) return false;
  if (r == REPROC_ETIMEDOUT && ec != std::errc::timed_out) return false;
  if (r == REPROC_ENOMEM && ec != std::errc::not_enough_memory) return false;
  if (r == REPROC_EWOULDBLOCK && ec != std::errc::resource_unavailable_try_again && ec != std::errc::operation_would_block) return false;
  return true;
}

static void method_viol(const char *m, int r, const std::string &what)
{
  char b[200];
  snprintf(b, sizeof b, "%s with C result %d: %s", m, r, what.c_str());
  viol("method-result", m, b);
}

static void check_methods()
{
  for (int r : RETS) {
    reproc::process p;
    long destroys_before = g_destroy;
    g_ret = r;
    st_methods++;
    {
      auto res = p.pid();
      if (strcmp(g_last.fn, "pid")) method_viol("pid", r, "C function not called");
      if (res.first != r || !ec_matches(res.second, r)) method_viol("pid", r, "value/error not the C result");
    }
    {
      int to = tmo(100000);
      auto res = to == -2 && rnd() % 2 ? p.wait(reproc::deadline) : to == -1 && rnd() % 2 ? p.wait(reproc::infinite) : p.wait(reproc::milliseconds(to));
      if (strcmp(g_last.fn, "wait") || g_last.a != to) method_viol("wait", r, "timeout not passed through");
      if (res.first != r || !ec_matches(res.second, r)) method_viol("wait", r, "value/error not the C result");
    }
    {
      uint8_t buf[16];
      int st = rint(0, 2);
      size_t sz = static_cast<size_t>(rint(0, 16));
      auto res = p.read(static_cast<reproc::stream>(st), buf, sz);
      if (strcmp(g_last.fn, "read") || g_last.a != st || g_last.ptr != buf || g_last.b != static_cast<long>(sz))
        method_viol("read", r, "arguments not passed through");
      if ((r >= 0 && res.first != static_cast<size_t>(r)) || !ec_matches(res.second, r)) method_viol("read", r, "value/error not the C result");
    }
    {
      uint8_t buf[16] = { 0 };
      size_t sz = static_cast<size_t>(rint(0, 16));
      auto res = p.write(buf, sz);
      if (strcmp(g_last.fn, "write") || g_last.ptr != buf || g_last.b != static_cast<long>(sz)) method_viol("write", r, "arguments not passed through");
      if ((r >= 0 && res.first != static_cast<size_t>(r)) || !ec_matches(res.second, r)) method_viol("write", r, "value/error not the C result");
    }
    {
      int st = rint(0, 2);
      auto ec = p.close(static_cast<reproc::stream>(st));
      if (strcmp(g_last.fn, "close") || g_last.a != st) method_viol("close", r, "stream not passed through");
      if (!ec_matches(ec, r)) method_viol("close", r, "error not the C result");
    }
    {
      auto ec = p.terminate();
      if (strcmp(g_last.fn, "terminate")) method_viol("terminate", r, "C function not called");
      if (!ec_matches(ec, r)) method_viol("terminate", r, "error not the C result");
      ec = p.kill();
      if (strcmp(g_last.fn, "kill")) method_viol("kill", r, "C function not called");
      if (!ec_matches(ec, r)) method_viol("kill", r, "error not the C result");
    }
    {
      reproc::stop_actions s{ { static_cast<reproc::stop>(rint(0, 3)), reproc::milliseconds(tmo(9999)) },
                              { static_cast<reproc::stop>(rint(0, 3)), reproc::milliseconds(tmo(9999)) },
                              { static_cast<reproc::stop>(rint(0, 3)), reproc::milliseconds(tmo(9999)) } };
      auto res = p.stop(s);
      bool same = !strcmp(g_last.fn, "stop") && static_cast<int>(g_last.stop.first.action) == static_cast<int>(s.first.action) &&
                  g_last.stop.first.timeout == s.first.timeout.count() &&
                  static_cast<int>(g_last.stop.second.action) == static_cast<int>(s.second.action) &&
                  g_last.stop.second.timeout == s.second.timeout.count() &&
                  static_cast<int>(g_last.stop.third.action) == static_cast<int>(s.third.action) &&
                  g_last.stop.third.timeout == s.third.timeout.count();
      if (!same) method_viol("stop", r, "stop actions not passed through");
      if (res.first != r || !ec_matches(res.second, r)) method_viol("stop", r, "value/error not the C result");
    }
    {
      int interests = rint(0, 31), to = tmo(5000), evs = rint(0, 31);
      if (to == -2) to = -1;
      g_poll_events = { evs };
      auto res = p.poll(interests, reproc::milliseconds(to));
      bool ok = !strcmp(g_last.fn, "poll") && g_last.a == 1 && g_last.b == to && g_last.sources.size() == 1 &&
                g_last.sources[0].interests == interests && g_last.sources[0].process != nullptr;
      if (!ok) method_viol("poll", r, "source/interests/timeout not passed through");
      if (!ec_matches(res.second, r)) method_viol("poll", r, "error not the C result");
      if (r >= 0 && res.first != evs) method_viol("poll", r, "events not returned");
      g_poll_events.clear();
    }
    {
      // moves keep exactly one owner
      reproc::process q(std::move(p));
      reproc::process s2;
      s2 = std::move(q);
      g_ret = 0;
      s2.pid();
    }
    if (g_destroy - destroys_before != 2) {
      char b[100];
      snprintf(b, sizeof b, "%ld destroys for 2 process objects (moves included)", g_destroy - destroys_before);
      viol("destroy-count", "process", b);
    }
  }
  // free function poll over several sources
  {
    reproc::event::source src[3] = { { reproc::process(), 3, 0 }, { reproc::process(), 8, 0 }, { reproc::process(), 31, 0 } };
    g_poll_events = { 1, 0, 16 };
    g_ret = 2;
    auto ec = reproc::poll(src, 3, reproc::milliseconds(77));
    st_methods++;
    if (ec || g_last.a != 3 || g_last.b != 77 || g_last.sources.size() != 3 || g_last.sources[1].interests != 8 ||
        src[0].events != 1 || src[1].events != 0 || src[2].events != 16)
      viol("method-result", "poll", "reproc::poll over 3 sources does not pass sources through / copy events back");
    g_poll_events.clear();
  }
}

static void check_constants()
{
#define CONST(name, a, b)                                                                          \
  do {                                                                                             \
    st_consts++;                                                                                   \
    if (static_cast<long long>(a) != static_cast<long long>(b)) {                                  \
      char m_[160];                                                                                \
      snprintf(m_, sizeof m_, "%s: C++ %lld, C %lld", name, static_cast<long long>(a), static_cast<long long>(b)); \
      viol("constant-differs", name, m_);                                                          \
    }                                                                                              \
  } while (0)
  CONST("stop::noop", reproc::stop::noop, REPROC_STOP_NOOP);
  CONST("stop::wait", reproc::stop::wait, REPROC_STOP_WAIT);
  CONST("stop::terminate", reproc::stop::terminate, REPROC_STOP_TERMINATE);
  CONST("stop::kill", reproc::stop::kill, REPROC_STOP_KILL);
  CONST("redirect::default_", reproc::redirect::default_, REPROC_REDIRECT_DEFAULT);
  CONST("redirect::pipe", reproc::redirect::pipe, REPROC_REDIRECT_PIPE);
  CONST("redirect::parent", reproc::redirect::parent, REPROC_REDIRECT_PARENT);
  CONST("redirect::discard", reproc::redirect::discard, REPROC_REDIRECT_DISCARD);
  CONST("redirect::stdout_", reproc::redirect::stdout_, REPROC_REDIRECT_STDOUT);
  CONST("redirect::handle_", reproc::redirect::handle_, REPROC_REDIRECT_HANDLE);
  CONST("redirect::file_", reproc::redirect::file_, REPROC_REDIRECT_FILE);
  CONST("redirect::path_", reproc::redirect::path_, REPROC_REDIRECT_PATH);
  CONST("stream::in", reproc::stream::in, REPROC_STREAM_IN);
  CONST("stream::out", reproc::stream::out, REPROC_STREAM_OUT);
  CONST("stream::err", reproc::stream::err, REPROC_STREAM_ERR);
  CONST("env::extend", reproc::env::extend, REPROC_ENV_EXTEND);
  CONST("env::empty", reproc::env::empty, REPROC_ENV_EMPTY);
  CONST("event::in", reproc::event::in, REPROC_EVENT_IN);
  CONST("event::out", reproc::event::out, REPROC_EVENT_OUT);
  CONST("event::err", reproc::event::err, REPROC_EVENT_ERR);
  CONST("event::exit", reproc::event::exit, REPROC_EVENT_EXIT);
  CONST("event::deadline", reproc::event::deadline, REPROC_EVENT_DEADLINE);
  CONST("infinite", reproc::infinite.count(), REPROC_INFINITE);
  CONST("deadline", reproc::deadline.count(), REPROC_DEADLINE);
  CONST("signal::kill", reproc::signal::kill, REPROC_SIGKILL);
  CONST("signal::terminate", reproc::signal::terminate, REPROC_SIGTERM);
}

static void one_case(int only, long idx)
{
  st_cases++;
  if (only >= 0) st_onehot++;
  std::vector<std::pair<std::string, std::string>> envstore;
  std::vector<uint8_t> inputstore;
  reproc::options o;
  fill_options(o, only, envstore, inputstore);
  std::string ctx = "case " + std::to_string(idx) + (only >= 0 ? " one-hot field " + std::to_string(only) : " random");
  // arguments from a container of arbitrary byte strings
  std::vector<std::string> args;
  int na = rint(1, only >= 0 ? 3 : 100);
  for (int i = 0; i < na; i++) args.push_back(rand_bytes(i == 0 ? 8 : 40));
  g_ret = RETS[rnd() % (sizeof RETS / sizeof RETS[0])];
  int r = g_ret;
  {
    reproc::process p;
    std::error_code ec = p.start(args, o);
    st_containers++;
    if (g_start.argv_null || g_start.argv != args) viol("container-conversion", "arguments", "argv array differs from the container (" + ctx + ")");
    compare_options(g_start.o, o, ctx, envstore);
    st_fields++;
    if (g_start.o.fork) viol("field-not-mapped", "fork", "start() sets the C fork option (" + ctx + ")");
    if (!ec_matches(ec, r)) method_viol("start", r, "error not the C result");
    // fork(): fork option set, argv NULL, everything else as for start
    g_ret = rnd() % 2 ? 0 : r;
    int r2 = g_ret;
    auto fr = p.fork(o);
    st_fields++;
    if (!g_start.o.fork) viol("field-not-mapped", "fork", "fork() does not set the C fork option (" + ctx + ")");
    if (!g_start.argv_null) viol("field-not-mapped", "fork-argv", "fork() passes a non-NULL argv (" + ctx + ")");
    compare_options(g_start.o, o, ctx + " via fork()", envstore);
    if (fr.first != (r2 == 0) || !ec_matches(fr.second, r2)) method_viol("fork", r2, "result pair wrong");
  }
  check_clone(o, ctx);
  check_run(o, args, ctx, envstore);
  // const char* const* forms
  if (idx % 7 == 0) {
    const char *raw[] = { "prog", "a", nullptr };
    reproc::process p;
    g_ret = 0;
    p.start(reproc::arguments(raw), o);
    st_containers++;
    if (g_start.argv.size() != 2 || g_start.argv[0] != "prog") viol("container-conversion", "arguments-raw", "raw argv not passed through");
    std::map<std::string, std::string> m{ { "A", "1" }, { "B", "" }, { "", "x" } };
    reproc::options o2;
    o2.env.extra = m;
    p.start(reproc::arguments(raw), o2);
    st_containers++;
    std::vector<std::string> want;
    for (auto &kv : m) want.push_back(kv.first + "=" + kv.second);
    if (g_start.extra != want) viol("container-conversion", "env-map", "env from std::map differs");
  }
}

int main(int argc, char **argv)
{
  if (argc < 5) return 2;
  long w = atol(argv[1]), nw = atol(argv[2]);
  bool thorough = !strcmp(argv[3], "thorough");
  rs = static_cast<uint64_t>(atol(argv[4])) * 0x9E3779B97F4A7C15ULL + static_cast<uint64_t>(w) * 1013 + 7;
  long n = (thorough ? 100000 : 5000) / nw + 1;
  check_constants();
  for (long i = 0; i < n; i++) {
    int only = (i % 3 == 0) ? static_cast<int>((i / 3) % F_COUNT) : -1;
    one_case(only, i * nw + w);
    if (i % 50 == 0) check_methods();
  }
  if (g_new != g_destroy) {
    char b[100];
    snprintf(b, sizeof b, "%ld reproc_new calls, %ld reproc_destroy calls", g_new, g_destroy);
    viol("destroy-count", "total", b);
  }
  printf("S\t%ld\t%ld\t%ld\t%ld\t%ld\t%ld\t%ld\t%ld\t%ld\n", st_cases, st_viol, st_fields, st_methods, st_containers, st_clones,
         st_consts, st_onehot, st_runs);
  return st_viol ? 1 : 0;
}
