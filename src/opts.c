// Engine 'opts' (C13): enumerate option assignments in-process and compare reproc_start's
// verdict (reject with EINVAL and no side effect / accept with the documented effective
// redirect) with an independent transcription of the documented rules. fork() is made to
// fail with a reserved errno, so accepted combinations stop right after the redirect set-up
// and the set-up's libc trace tells which effective redirect was chosen.
//
// usage: opts <worker> <nworkers> <tier> <seed>      -> JSON summary + violation lines
//        opts --one <index>                          -> verbose single combination
#define _GNU_SOURCE
#include "wrap.h"

#include <errno.h>
#include <fcntl.h>
#include <signal.h>
#include <stdio.h>
#include <stdlib.h>
#include <string.h>
#include <sys/stat.h>
#include <unistd.h>

#include <reproc/reproc.h>

#define RESERVED_ERRNO 131  // ENOTRECOVERABLE: nothing in start produces it naturally

enum { T_MINUS1 = 8, T_EIGHT = 9 };  // encodings of the out-of-range types -1 and 8
static const int TYPEVAL[10] = { 0, 1, 2, 3, 4, 5, 6, 7, -1, 8 };

typedef struct {
  int t, h, f, p;  // type code 0..9, handle/file/path set
} sopt;

typedef struct {
  sopt s[3];
  int parent, discard, file, path;
  int input;   // 0 none, 1 data+size, 2 data+size0, 3 size without data
  int forkm;   // 0: argv given, fork off; 1: fork on, argv NULL; 2: fork on + argv; 3: fork off + argv NULL; 4: argv[0] NULL
} combo;

enum { EXP_REJECT = 1, EXP_ACCEPT = 2, EXP_DONTCARE = 3 };
enum { E_PIPE = 1, E_PARENT, E_DISCARD, E_STDOUT, E_HANDLE, E_FILE, E_PATH, E_SFILE, E_SPATH };
static const char *ENAME[] = { "?", "pipe", "parent", "discard", "stdout", "handle", "file", "path", "sfile", "spath" };

static FILE *user_file[3], *short_file;
static char user_path[3][64], short_path[64];
static int user_handle[3];

// ---------------------------------------------------------------- the documented rules
static int expect(const combo *c, int eff[3], const char **why)
{
  *why = "";
  for (int s = 0; s < 3; s++)
    if (c->s[s].t >= T_MINUS1) return EXP_DONTCARE;  // out-of-range type: statement is silent
  int unset_stream = 0;
  for (int s = 0; s < 3; s++) {
    const sopt *r = &c->s[s];
    int set = r->t || r->h || r->f || r->p;
    int sf = s != 0 && c->file, sp = s != 0 && c->path;
    if (r->h + r->f + r->p > 1) { *why = "two operands on one stream"; return EXP_REJECT; }
    if ((r->t >= 1 && r->t <= 4) && (r->h || r->f || r->p)) { *why = "type with a foreign operand"; return EXP_REJECT; }
    if (r->t == 5 && !r->h) { *why = "HANDLE without handle"; return EXP_REJECT; }
    if (r->t == 6 && !r->f) { *why = "FILE without file"; return EXP_REJECT; }
    if (r->t == 7 && !r->p) { *why = "PATH without path"; return EXP_REJECT; }
    if (r->t == 5 && (r->f || r->p)) { *why = "HANDLE with file/path"; return EXP_REJECT; }
    if (r->t == 6 && (r->h || r->p)) { *why = "FILE with handle/path"; return EXP_REJECT; }
    if (r->t == 7 && (r->h || r->f)) { *why = "PATH with handle/file"; return EXP_REJECT; }
    if (r->t == 4 && s != 2) { *why = "STDOUT on a stream other than stderr"; return EXP_REJECT; }
    if ((sf || sp) && set) { *why = "file/path shorthand with explicit out/err"; return EXP_REJECT; }
    if (!set) unset_stream++;
    if (r->t >= 1 && r->t <= 7) eff[s] = r->t;          // E_* values equal the type values 1..7
    else if (r->h) eff[s] = E_HANDLE;
    else if (r->f) eff[s] = E_FILE;
    else if (r->p) eff[s] = E_PATH;
    else if (sf) eff[s] = E_SFILE;
    else if (sp) eff[s] = E_SPATH;
    else if (c->parent) eff[s] = E_PARENT;
    else if (c->discard) eff[s] = E_DISCARD;
    else eff[s] = s == 2 ? E_PARENT : E_PIPE;
  }
  if (c->file && c->path) { *why = "file and path shorthands"; return EXP_REJECT; }
  if ((c->file || c->path) && (c->parent || c->discard)) { *why = "file/path shorthand with parent/discard"; return EXP_REJECT; }
  if (c->parent && c->discard) {
    if (unset_stream) { *why = "parent and discard compete for an unset stream"; return EXP_REJECT; }
    return EXP_DONTCARE;  // nothing left to compete for: the statement does not decide this one
  }
  if ((c->input == 1 || c->input == 2) && eff[0] != E_PIPE) { *why = "input with a non-pipe stdin"; return EXP_REJECT; }
  if (c->input == 3) { *why = "input size without data"; return EXP_REJECT; }
  if (c->forkm >= 2) { *why = "fork mode and argv disagree"; return EXP_REJECT; }
  return EXP_ACCEPT;
}

// ---------------------------------------------------------------- observation
// Visible redirect set-ups (parent side, before the first fork) in order, as E_* codes, and
// the number of descriptor/process-creating calls. HANDLE and STDOUT leave no call.
static int observe(uint32_t from, uint32_t to, int vis[8], int *side_effects)
{
  int n = 0;
  *side_effects = 0;
  int before_fork = 1;
  for (uint32_t i = from; i < to && i < W_MAXTR; i++) {
    trec *t = &W->tr[i];
    if (t->side != 0) continue;
    if (t->fn == F_pipe || t->fn == F_open || t->fn == F_fork || t->fn == F_fileno || t->fn == F_dup2)
      (*side_effects)++;
    if (t->fn == F_fork) before_fork = 0;
    if (!before_fork || n >= 8) continue;
    if (t->fn == F_pipe) vis[n++] = E_PIPE;
    else if (t->fn == F_fileno) {
      FILE *f = (FILE *) t->a[0];
      vis[n++] = (f == stdin || f == stdout || f == stderr) ? E_PARENT : f == short_file ? E_SFILE : E_FILE;
    } else if (t->fn == F_open) {
      const char *p = (const char *) t->a[0];
      vis[n++] = (p && !strcmp(p, "/dev/null")) ? E_DISCARD : (p && !strcmp(p, short_path)) ? E_SPATH : E_PATH;
    }
  }
  for (int j = n; j < 8; j++) vis[j] = 0;
  return n;
}

static void describe(const combo *c, char *buf, size_t n)
{
  snprintf(buf, n, "in={t=%d,h=%d,f=%d,p=%d} out={t=%d,h=%d,f=%d,p=%d} err={t=%d,h=%d,f=%d,p=%d} parent=%d discard=%d file=%d path=%d input=%d fork=%d",
           TYPEVAL[c->s[0].t], c->s[0].h, c->s[0].f, c->s[0].p, TYPEVAL[c->s[1].t], c->s[1].h, c->s[1].f, c->s[1].p,
           TYPEVAL[c->s[2].t], c->s[2].h, c->s[2].f, c->s[2].p, c->parent, c->discard, c->file, c->path, c->input, c->forkm);
}

// combination index <-> combo. redirect space: 80^3 * 16 = 8192000
static void decode_redirect(long idx, combo *c)
{
  memset(c, 0, sizeof *c);
  for (int s = 0; s < 3; s++) {
    int v = (int) (idx % 80);
    idx /= 80;
    c->s[s].t = v / 8;
    c->s[s].h = (v >> 2) & 1;
    c->s[s].f = (v >> 1) & 1;
    c->s[s].p = v & 1;
  }
  c->parent = (int) (idx & 1);
  c->discard = (int) ((idx >> 1) & 1);
  c->file = (int) ((idx >> 2) & 1);
  c->path = (int) ((idx >> 3) & 1);
}

static long stats[16];
static unsigned char *seen_bitmap;  // distinct asserted combinations (redirect space)
enum { S_EVAL, S_REJECT_OK, S_ACCEPT_OK, S_DONTCARE, S_VIOL, S_EFFCHECK, S_INPUT, S_FORK, S_DISTINCT_ACCEPT, S_DISTINCT_REJECT_REASONS };
static unsigned char reason_seen[64];
static unsigned char accept_sig_seen[1024];

static int run_combo(const combo *c, long idx, const char *space, int verbose)
{
  reproc_options o;
  memset(&o, 0, sizeof o);
  reproc_redirect *rd[3] = { &o.redirect.in, &o.redirect.out, &o.redirect.err };
  for (int s = 0; s < 3; s++) {
    rd[s]->type = (REPROC_REDIRECT) TYPEVAL[c->s[s].t];
    if (c->s[s].h) rd[s]->handle = user_handle[s];
    if (c->s[s].f) rd[s]->file = user_file[s];
    if (c->s[s].p) rd[s]->path = user_path[s];
  }
  o.redirect.parent = c->parent;
  o.redirect.discard = c->discard;
  if (c->file) o.redirect.file = short_file;
  if (c->path) o.redirect.path = short_path;
  static const uint8_t data[4] = { 'a', 'b', 'c', 'd' };
  if (c->input == 1) { o.input.data = data; o.input.size = 4; }
  if (c->input == 2) { o.input.data = data; o.input.size = 0; }
  if (c->input == 3) { o.input.data = NULL; o.input.size = 4; }
  const char *argv_ok[] = { "/nonexistent/never-run", NULL };
  const char *argv_null0[] = { NULL };
  const char *const *argv = argv_ok;
  o.fork = c->forkm == 1 || c->forkm == 2;
  if (c->forkm == 1 || c->forkm == 3) argv = NULL;
  if (c->forkm == 4) argv = argv_null0;

  int eff[3] = { 0, 0, 0 };
  const char *why;
  int exp = expect(c, eff, &why);

  W->ntr = 0;
  W->overflow = 0;
  reproc_t *p = reproc_new();
  uint32_t from = W->ntr;
  int r = reproc_start(p, argv, o);
  uint32_t to = W->ntr;
  int got[8], side;
  int nvis = observe(from, to, got, &side);
  reproc_destroy(p);
  stats[S_EVAL]++;
  if (exp != EXP_DONTCARE && seen_bitmap && !strcmp(space, "redirect")) {
    if (!(seen_bitmap[idx >> 3] & (1 << (idx & 7)))) {
      seen_bitmap[idx >> 3] |= (unsigned char) (1 << (idx & 7));
      stats[10]++;
    }
  } else if (exp != EXP_DONTCARE) {
    stats[10]++;
  }

  char desc[400];
  const char *viol = NULL;
  char vmsg[200] = "";
  if (exp == EXP_DONTCARE) {
    stats[S_DONTCARE]++;
  } else if (exp == EXP_REJECT) {
    if (r != REPROC_EINVAL) {
      viol = "not-rejected";
      snprintf(vmsg, sizeof vmsg, "%s: start returned %d instead of EINVAL", why, r);
    } else if (side) {
      viol = "rejected-after-side-effects";
      snprintf(vmsg, sizeof vmsg, "%s: EINVAL but %d descriptor/process-creating calls were made first", why, side);
    } else {
      stats[S_REJECT_OK]++;
      unsigned h = 0;
      for (const char *q = why; *q; q++) h = h * 31 + (unsigned char) *q;
      if (!reason_seen[h % 64]) { reason_seen[h % 64] = 1; stats[S_DISTINCT_REJECT_REASONS]++; }
    }
  } else {
    if (r == REPROC_EINVAL) {
      viol = "valid-combination-rejected";
      snprintf(vmsg, sizeof vmsg, "documented combination rejected with EINVAL");
    } else if (r != -RESERVED_ERRNO) {
      viol = "accepted-but-unexpected-result";
      snprintf(vmsg, sizeof vmsg, "start returned %d (expected to reach fork)", r);
    } else {
      // compare the visible set-ups, in stream order, with the expected effective redirects
      int want[4], nw = 0;
      for (int s = 0; s < 3; s++)
        if (eff[s] != E_HANDLE && eff[s] != E_STDOUT) want[nw++] = eff[s];
      want[nw++] = E_PIPE;  // the exit pipe
      // (the error pipe of process_start follows the exit pipe: anything after nw is ignored)
      int ok = nvis >= nw;
      for (int j = 0; j < nw && ok; j++)
        if (got[j] != want[j]) ok = 0;
      stats[S_EFFCHECK]++;
      if (!ok) {
        viol = "wrong-effective-redirect";
        snprintf(vmsg, sizeof vmsg, "expected %s/%s/%s, set-up trace shows %s,%s,%s (%d visible)", ENAME[eff[0]], ENAME[eff[1]],
                 ENAME[eff[2]], ENAME[got[0]], ENAME[got[1]], ENAME[got[2]], nvis);
      } else {
        stats[S_ACCEPT_OK]++;
        unsigned sg = (unsigned) (eff[0] * 100 + eff[1] * 10 + eff[2]);
        if (!accept_sig_seen[sg % 1024]) { accept_sig_seen[sg % 1024] = 1; stats[S_DISTINCT_ACCEPT]++; }
      }
    }
  }
  if (viol || verbose) {
    describe(c, desc, sizeof desc);
    if (viol) {
      stats[S_VIOL]++;
      printf("V\t%s\t%s\t%ld\t%s\t%s\n", viol, space, idx, desc, vmsg);
    } else {
      printf("I\t%s\t%ld\t%s\texp=%d r=%d side=%d eff=%s/%s/%s got=%s,%s,%s\n", space, idx, desc, exp, r, side, ENAME[eff[0]],
             ENAME[eff[1]], ENAME[eff[2]], ENAME[got[0]], ENAME[got[1]], ENAME[got[2]]);
    }
  }
  return viol != NULL;
}

static uint64_t rng_state;
static uint64_t rnd(void)
{
  rng_state ^= rng_state << 13;
  rng_state ^= rng_state >> 7;
  rng_state ^= rng_state << 17;
  return rng_state;
}

int main(int argc, char **argv)
{
  wrap_init();
  wrap_reset_case();
  signal(SIGPIPE, SIG_IGN);
  wrap_add_fault(0, F_fork, -1, RESERVED_ERRNO);  // k = -1: every fork fails
  char dir[256];
  snprintf(dir, sizeof dir, "%s/opts.%d", getenv("VERIF_SCRATCH") ? getenv("VERIF_SCRATCH") : "/dev/shm", (int) getpid());
  mkdir(dir, 0755);
  for (int s = 0; s < 3; s++) {
    snprintf(user_path[s], sizeof user_path[s], "%s/p%d", dir, s);
    char fp[80];
    snprintf(fp, sizeof fp, "%s/f%d", dir, s);
    user_file[s] = fopen(fp, s == 0 ? "w+" : "w");
    snprintf(fp, sizeof fp, "%s/h%d", dir, s);
    user_handle[s] = open(fp, O_RDWR | O_CREAT | O_CLOEXEC, 0644);
  }
  snprintf(short_path, sizeof short_path, "%s/sp", dir);
  {
    char fp[80];
    snprintf(fp, sizeof fp, "%s/sf", dir);
    short_file = fopen(fp, "w");
  }
  int rc = 0;
  if (argc >= 4 && !strcmp(argv[1], "--one")) {
    combo c;
    long idx = atol(argv[3]);
    if (!strcmp(argv[2], "redirect")) decode_redirect(idx, &c);
    else {
      decode_redirect(idx / 20, &c);
      c.input = (int) (idx % 20) / 5;
      c.forkm = (int) (idx % 5);
    }
    run_combo(&c, idx, argv[2], 1);
  } else if (argc >= 5) {
    long w = atol(argv[1]), nw = atol(argv[2]);
    int thorough = !strcmp(argv[3], "thorough");
    rng_state = (uint64_t) atol(argv[4]) * 0x9E3779B97F4A7C15ULL + 0x1234567ULL;
    const long NRED = 80L * 80 * 80 * 16;
    seen_bitmap = calloc((size_t) NRED / 8 + 1, 1);
    combo c;
    if (thorough) {
      for (long i = w; i < NRED; i += nw) {
        decode_redirect(i, &c);
        rc |= run_combo(&c, i, "redirect", 0);
      }
    } else {
      // every single-stream assignment with the other streams unset, all shorthand masks
      for (long s = 0; s < 3; s++)
        for (long v = 0; v < 80; v++)
          for (long m = 0; m < 16; m++) {
            long i = m * 512000;
            long mul = s == 0 ? 1 : s == 1 ? 80 : 6400;
            i += v * mul;
            if (i % nw != w) continue;
            decode_redirect(i, &c);
            rc |= run_combo(&c, i, "redirect", 0);
          }
      for (long k = 0; k < 300000 / nw; k++) {
        long i = (long) (rnd() % (uint64_t) (NRED / nw)) * nw + w;  // disjoint across workers
        if (i >= NRED) continue;
        decode_redirect(i, &c);
        rc |= run_combo(&c, i, "redirect", 0);
      }
    }
    // every stdin assignment x every shorthand mask (out/err unset) x input forms x fork/argv forms
    for (long v = 0; v < 80; v++)
      for (long m = 0; m < 16; m++) {
        long base = m * 512000 + v;
        if (base % nw != w) continue;
        for (int in = 0; in < 4; in++)
          for (int fk = 0; fk < 5; fk++) {
            decode_redirect(base, &c);
            c.input = in;
            c.forkm = fk;
            stats[in ? S_INPUT : S_FORK]++;
            rc |= run_combo(&c, base * 20 + in * 5 + fk, "full", 0);
          }
      }
    // input forms x fork/argv forms x a covering sample of the redirect space
    long nsample = thorough ? 20000 : 2000;
    for (long k = 0; k < nsample / nw + 1; k++) {
      long base = (long) (rnd() % (uint64_t) NRED);
      if (k % 2 == 0) {
        // bias towards valid redirect sets so input/fork rules are reached
        base = (long) (rnd() % 8) * 8 + (long) (rnd() % 8) * 8 * 80 + (long) (rnd() % 8) * 8 * 6400;
      }
      for (int in = 0; in < 4; in++)
        for (int fk = 0; fk < 5; fk++) {
          decode_redirect(base, &c);
          c.input = in;
          c.forkm = fk;
          stats[in ? S_INPUT : S_FORK]++;
          rc |= run_combo(&c, base * 20 + in * 5 + fk, "full", 0);
        }
    }
    printf("S\t%ld\t%ld\t%ld\t%ld\t%ld\t%ld\t%ld\t%ld\t%ld\t%ld\t%ld\n", stats[10], stats[S_EVAL], stats[S_REJECT_OK], stats[S_ACCEPT_OK],
           stats[S_DONTCARE], stats[S_VIOL], stats[S_EFFCHECK], stats[S_INPUT], stats[S_FORK], stats[S_DISTINCT_ACCEPT],
           stats[S_DISTINCT_REJECT_REASONS]);
  } else {
    fprintf(stderr, "usage: opts <worker> <nworkers> <tier> <seed> | --one <space> <index>\n");
    rc = 2;
  }
  for (int s = 0; s < 3; s++) {
    if (user_file[s]) fclose(user_file[s]);
    close(user_handle[s]);
  }
  if (short_file) fclose(short_file);
  char cmd[200];
  snprintf(cmd, sizeof cmd, "rm -rf '%s'", dir);
  if (system(cmd) != 0) {}
  return rc ? 1 : 0;
}
